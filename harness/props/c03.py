"""C03 — multipart reassembly is correct under any interleaving and arrival order."""
import itertools
import re

from .. import gen, impl


class Msg:
    def __init__(self, rng, n, seq, chan, corrupt=False, group=None):
        """a message of n fragments in slot (seq, chan); with `group`, every fragment travels behind a tag block that
        names it as sentence i of n of that tag block group (the group id is no part of the reassembly slot)"""
        self.n, self.seq, self.chan = n, seq, chan
        if n == 1 and seq == '':
            bits = gen.payload_bits(rng, 'MessageType1')
            self.lines = gen.render(bits, chan=chan or 'A')
        else:
            nchars = rng.randint(n, max(n, min(170, 30 * n)))
            bits = gen.payload_bits(rng, 'MessageType8', length=6 * nchars - rng.randint(0, 5))
            payload, fill = gen.armor(bits)
            cuts = sorted(rng.sample(range(1, len(payload)), n - 1)) if n > 1 else []
            self.lines = gen.render(bits, seq=seq, chan=chan, cuts=cuts)
            if n > 1 and rng.random() < 0.12:
                # a last fragment with an EMPTY payload (the whole payload travels in the fragments before it):
                # a very short but complete sentence, e.g. `!AIVDM,2,2,,A,,0*26`
                cuts2 = sorted(rng.sample(range(1, len(payload)), n - 2)) if n > 2 else []
                pts = [0] + cuts2 + [len(payload)]
                chunks = [payload[a:b] for a, b in zip(pts, pts[1:])] + ['']
                self.lines = [gen.sentence('AIVDM', n, i + 1, seq, chan, c, fill if i == n - 2 else 0)
                              for i, c in enumerate(chunks)]
            elif n > 2 and rng.random() < 0.06:
                # ... or an empty fragment in the middle
                cuts2 = sorted(rng.sample(range(1, len(payload)), n - 2))
                pts = [0] + cuts2 + [len(payload)]
                chunks = [payload[a:b] for a, b in zip(pts, pts[1:])]
                chunks.insert(rng.randint(1, n - 2), '')
                self.lines = [gen.sentence('AIVDM', n, i + 1, seq, chan, c, fill if i == n - 1 else 0)
                              for i, c in enumerate(chunks)]
        self.valid = [True] * n
        if corrupt:
            i = rng.randrange(n)
            l = self.lines[i]
            self.lines[i] = l[:-2] + (b'00' if l[-2:] != b'00' else b'01')
            self.valid[i] = False
        self.bits = bits
        self.single = (n == 1 and seq in ('', '0'))
        self.wire = list(self.lines)
        if group is not None:
            self.wire = [gen.tag_block(b'g:%d-%d-%s,s:st' % (i + 1, n, group.encode())) + l for i, l in enumerate(self.lines)]

    def expected(self):
        payload = b''.join(l.split(b',')[5] for l in self.lines)
        return {'raw': b'\n'.join(self.lines).hex(), 'pl': payload.hex(), 'bits': self.bits, 'valid': '1' if all(self.valid) else '0'}


def field(item, key):
    m = re.search(r'(?:^|[ \[])%s=(\S*)' % key, item)
    return m.group(1) if m else None


def check_schedule(ctx, fe, schedule, out, sig, positions=True):
    """schedule: list of (msg, fragment index); out: driver/impl output"""
    lines = [m.wire[i] for m, i in schedule]
    exp = []
    got_frags = {}
    for pos, (m, i) in enumerate(schedule):
        got_frags.setdefault(id(m), set()).add(i)
        if len(got_frags[id(m)]) == m.n:
            exp.append((pos if positions else 0, m.expected()))
            got_frags[id(m)] = set()
    compare(ctx, fe, lines, exp, out, sig)


def compare(ctx, fe, lines, exp, out, sig):
    """exp: expected deliveries [(input position, {raw, pl, bits, valid})] from the construction"""
    inp = {'frontend': fe, 'lines': [l.hex() for l in lines], 'expected': [[p, e] for p, e in exp]}
    got = []
    if 'CRASH' in out:
        ctx.fail('reader crashed', inp, 'no exception', out[-100:], dict(sig, kind='crash'))
        return
    for item in out.split(' ; ') if out != '-' else []:
        mm = re.match(r'D(\d+):\[(.*)\]$', item)
        if mm:
            body = mm.group(2)
            got.append((int(mm.group(1)), {k: field(body, k) for k in ('raw', 'pl', 'bits', 'valid')}))
    if got != exp:
        ctx.fail('delivered messages differ from "one assembled message per complete fragment set, at its last '
                 'fragment, payload in fragment order, validity the conjunction; singles immediately"',
                 inp, [(p, e['pl'][:16], e['valid']) for p, e in exp], [(p, e['pl'][:16], e['valid']) for p, e in got],
                 dict(sig, kind='delivery'))


class Prop:
    lean_files = ['PyaisVerif/Properties/C03.lean']
    rule = ('ALL interleavings x ALL per-message fragment permutations of small configurations (up to 3 messages with up '
            'to 3 fragments in 2-3 distinct (sequence id, channel) slots, same sequence id on different channels, slot '
            'reuse by a later message, single sentences in between, one fragment with a wrong checksum), capped per '
            'configuration; seeded random schedules with up to 8 messages in flight and up to 9 fragments; through '
            'IterMessages and NMEAQueue; each compared with the Lean model per input position and with the property '
            '(expected deliveries computed from the construction of the schedule); non-trivial = at least one '
            'multi-fragment message delivered ; the same schedules as a dribbled byte stream through the socket readers; singles whose sequence id reads 0; empty fragments; every reader through its self-consistency family (DESIGN §4.2: next(), two-step consumption, polled source, bounded queue, preprocessors)')
    assumptions = ['fragment sets are complete and in-flight messages occupy distinct slots (the property\'s quantifier); '
                   'stale fragments of incomplete sets in a reused slot are outside it']

    def configs(self, rng, tier):
        out = []
        shapes = [[(2, '1', 'A')], [(3, '1', 'A')], [(2, '1', 'A'), (2, '2', 'A')], [(2, '1', 'A'), (2, '1', 'B')],
                  [(2, '', 'A'), (2, '', 'B')], [(3, '1', 'A'), (2, '2', 'B')], [(2, '1', 'A'), (3, '1', 'B'), (1, '', 'A')],
                  [(2, '3', 'A'), (2, '4', 'A'), (2, '5', 'B')], [(1, '5', 'A'), (2, '1', 'B')],
                  [(2, '1', ''), (2, '1', '1')], [(2, '9', 'A'), (1, '', 'B'), (1, '0', 'A')],
                  # sequence id 0 and "no sequence id" are different slots
                  [(2, '0', 'A'), (2, '', 'A')], [(3, '0', 'B'), (2, '', 'B')], [(2, '0', 'A'), (2, '', 'A'), (2, '0', 'B')],
                  # a complete one-sentence message whose sequence id field reads 0 is a single-sentence message: it is
                  # delivered at once and does not touch the fragments in flight in slot (0, channel) or ('', channel)
                  [(2, '0', 'A'), (1, '0', 'A')], [(3, '0', 'B'), (1, '0', 'B'), (1, '', 'B')], [(2, '', 'A'), (1, '0', 'A')],
                  # fragments behind tag blocks: the tag block group id is not the sequence id - a group whose id reads
                  # like the sequence id of another message in flight on that channel is still another message
                  [(2, '7', 'A', '3'), (2, '3', 'A')], [(2, '1', 'A', '2'), (2, '2', 'A', '1')], [(2, '', 'B', '0'), (2, '0', 'B')],
                  [(3, '4', 'A', '4'), (2, '4', 'B', '4')]]
        if tier == 'thorough':
            shapes += [[(3, '1', 'A'), (3, '2', 'A')], [(3, '1', 'A'), (3, '1', 'B'), (2, '2', 'A')], [(4, '1', 'A'), (2, '2', 'B')]]
        for shape in shapes:
            for reuse in (False, True):
                msgs = [Msg(rng, sh[0], sh[1], sh[2], corrupt=(rng.random() < 0.3), group=(sh[3] if len(sh) > 3 else None)) for sh in shape]
                seqs_per_msg = []
                for m in msgs:
                    seqs_per_msg.append([[(m, i) for i in p] for p in itertools.permutations(range(m.n))])
                later = None
                if reuse:
                    n, seq, chan = shape[0][:3]
                    later = Msg(rng, max(2, n), seq, chan)
                cap = 300 if tier == 'quick' else 5000
                combos = list(itertools.product(*seqs_per_msg))
                for combo in combos:
                    seqs = [list(c) for c in combo]
                    if later is not None:
                        # slot reuse: the later message's fragments follow the first message's fragments
                        seqs[0] = seqs[0] + [(later, i) for i in rng.sample(range(later.n), later.n)]
                    inter = list(itertools.islice(gen.all_interleavings(seqs), cap // max(1, len(combos)) + 2))
                    if len(inter) > cap // max(1, len(combos)) + 1:
                        inter = [gen.random_interleaving(rng, seqs) for _ in range(cap // max(1, len(combos)) + 1)]
                    for sched in inter:
                        out.append(('shape=%s reuse=%s' % (shape, reuse), sched))
        return out

    def random_schedules(self, rng, count):
        out = []
        for _ in range(count):
            slots = [(str(s), c) for s in range(0, 10) for c in ('A', 'B')] + [('', 'A'), ('', 'B')]
            rng.shuffle(slots)
            if rng.random() < 0.3:       # force the delicate neighbours into flight together
                first = [('0', 'A'), ('', 'A'), ('0', 'B'), ('', 'B')]
                slots = first + [x for x in slots if x not in first]
            k = rng.randint(2, 8)
            seqs = []
            for seq, chan in slots[:k]:
                chain = []
                for _ in range(rng.randint(1, 2)):          # slot reuse
                    m = Msg(rng, rng.randint(2, 9), seq, chan, corrupt=(rng.random() < 0.15),
                            group=(str(rng.randint(0, 9)) if rng.random() < 0.2 else None))
                    order = list(range(m.n))
                    rng.shuffle(order)
                    chain += [(m, i) for i in order]
                seqs.append(chain)
            for _ in range(rng.randint(0, 4)):
                seqs.append([(Msg(rng, 1, rng.choice(['', '', '0']), rng.choice('AB')), 0)])
            out.append(('random', gen.random_interleaving(rng, seqs)))
        return out

    def many_slots(self, rng, tier):
        """many messages in flight at once, each in its own (sequence id, channel) slot: the ids 0-9 and none on the
        channels A and B alone are 22 slots; other channel designators (1, 2, none, C, D) and two-digit ids (their
        textual concatenation with the channel must not collide: (1, '1') and (11, '')) make many more"""
        seqs = [''] + [str(i) for i in range(13)]
        chans = ['A', 'B', '1', '2', '', 'C', 'D']
        slots = [(s_, c) for c in chans for s_ in seqs]
        out = []
        for n in ([21, 23, 34, 70, len(slots)] if tier == 'quick' else [21, 22, 23, 33, 34, 65, 66, 70, 98] * 4):
            n = min(n, len(slots))
            chosen = slots[:22] + rng.sample(slots[22:], n - 22) if n > 22 else slots[:n]
            # the colliding pair is always among them
            for must in (('1', '1'), ('11', '')):
                if must not in chosen:
                    chosen[-1 if must == ('1', '1') else -2] = must
            msgs = [Msg(rng, 2, s_, c) for s_, c in chosen]
            firsts = [(m, 0) for m in msgs]
            seconds = [(m, 1) for m in msgs]
            out.append(('many-slots=%d' % n, firsts + seconds))
            out.append(('many-slots=%d' % n, firsts + seconds[::-1]))
            out.append(('many-slots=%d' % n, gen.random_interleaving(rng, [[(m, 0), (m, 1)] for m in msgs])))
        return out

    def run(self, ctx):
        rng = ctx.rng('c03')
        cases = self.configs(rng, ctx.tier) + self.random_schedules(rng, 300 if ctx.tier == 'quick' else 6000)
        cases += self.many_slots(ctx.rng('c03-many'), ctx.tier)
        for fe in ('iter', 'queue', 'bytestream'):
            ops = ['stream %s 0 %s' % (fe, ' '.join(m.wire[i].hex() for m, i in sched)) for _, sched in cases]
            outs = ctx.corr(ops, impl.step, 'stream-' + fe, nontrivial=lambda l, o: '0a21' in o)
            for (label, sched), o in zip(cases, outs):
                ctx.count(label.split(' reuse')[0] if label != 'random' else 'random')
                check_schedule(ctx, fe, sched, o, {'frontend': fe})
        # the same schedules as a byte stream through the socket readers, cut into small pieces (a sentence may arrive
        # in three or more of them); no input positions there: the sequence of deliveries
        srng = ctx.rng('c03-socket')
        sub = cases[::4]
        ops = []
        for _, sched in sub:
            stream = b''.join(m.wire[i] + b'\r\n' for m, i in sched)
            k = srng.choice([0, 2, 7, 25, len(stream) // 9 + 1, len(stream) // 3])
            cuts = sorted(set(srng.sample(range(1, len(stream)), min(k, len(stream) - 1))))
            pts = [0] + cuts + [len(stream)]
            ops.append('socket 0 ' + ' '.join(stream[a:b].hex() for a, b in zip(pts, pts[1:])))
        outs = ctx.corr(ops, impl.step, 'stream-socket', nontrivial=lambda l, o: '0a21' in o)
        for (label, sched), o in zip(sub, outs):
            check_schedule(ctx, 'socket', sched, o, {'frontend': 'socket'}, positions=False)
        # model-versus-implementation only: sequences with leftovers of incomplete sets
        left = self.leftovers(ctx.rng('c03-left'), 300 if ctx.tier == 'quick' else 5000)
        for fe in ('iter', 'queue'):
            ops = ['stream %s 0 %s' % (fe, ' '.join(l.hex() for l in lines)) for lines in left]
            ctx.corr(ops, impl.step, 'stream-%s-leftovers' % fe, nontrivial=lambda l, o: '0a21' in o)

    def leftovers(self, rng, count):
        """line sequences with incomplete fragment sets (lost fragments) followed by complete sets in the same
        slot.  What the readers deliver then is not fixed by the property (it speaks about complete sets), but
        it is fixed by the model: these sequences are compared model-versus-implementation only."""
        out = []
        for _ in range(count):
            seq, chan = rng.choice(['1', '0', '', '7']), rng.choice('AB')
            lines = []
            for _ in range(rng.randint(2, 4)):
                n = rng.randint(2, 4)
                bits = gen.payload_bits(rng, 'MessageType8', length=rng.randint(120, 500))
                payload, _ = gen.armor(bits)
                cuts = sorted(rng.sample(range(1, len(payload)), n - 1))
                frs = gen.render(bits, seq=seq, chan=chan, cuts=cuts)
                r = rng.random()
                if r < 0.4:
                    frs = [frs[j] for j in sorted(rng.sample(range(n), rng.randint(1, n - 1)))]
                elif r < 0.6:
                    rng.shuffle(frs)
                lines += frs
            out.append(lines)
        return out

    def replay(self, ctx, payload):
        inp = payload['failure']['input']
        if inp['frontend'] == 'socket':
            return None        # (regenerated from the recorded seed: the pieces are part of the case)
        out = impl.step('stream %s 0 %s' % (inp['frontend'], ' '.join(inp['lines'])))
        compare(ctx, inp['frontend'], [bytes.fromhex(x) for x in inp['lines']],
                [(p, e) for p, e in inp['expected']], out, {'frontend': inp['frontend']})
        return not ctx.failures


PROP = Prop()
