"""C11 — truncated payloads decode their covered fields and set the rest to None."""
from .. import gen, impl


def parse_canon(s):
    cls, kv = s.split('|', 1)
    return cls, [tuple(x.split('=', 1)) for x in kv.split(';')]


class Prop:
    lean_files = ['PyaisVerif/Properties/C11.lean']
    rule = ('every concrete class × every prefix length from the shortest that contains the message id (and the '
            'variant discriminator bits) to the full length, random content; the prefix and the full payload are '
            'decoded by pyais and compared field by field (covered = equal, beyond the end = None, never an '
            'exception), directly and through armored NMEA sentences; model vs pyais on the same prefixes; '
            'non-trivial = a proper prefix that cuts at least one field off')
    assumptions = ['the value of a field cut in the middle is not specified by the property and is not compared']

    def lengths(self, cname):
        cls = gen.concrete_classes()[cname]
        t, disc = gen.TYPE_OF[cname]
        lo = max([6] + [i + 1 for i in disc])
        return lo, gen.total_width(cls)

    def check_prefix(self, ctx, cname, bits, L, out_prefix, out_full, via):
        inp = {'class': cname, 'bits': bits, 'length': L, 'via': via}
        if out_prefix.startswith('ERR:') or out_full.startswith('ERR:'):
            ctx.fail('decoding a truncated payload failed', inp, 'a message', out_prefix + ' / ' + out_full,
                     {'kind': 'raises', 'class': cname})
            return
        cp, fp = parse_canon(out_prefix)
        cf, ff = parse_canon(out_full)
        if cp != cf or [k for k, _ in fp] != [k for k, _ in ff]:
            ctx.fail('truncated payload decodes to a different class / field list', inp, cf, cp,
                     {'kind': 'class', 'class': cname})
            return
        cls = gen.concrete_classes()[cname]
        for (name, off, w, *_), (k1, v1), (k2, v2) in zip(gen.field_offsets(cls), fp, ff):
            if off + w <= L and v1 != v2:
                ctx.fail('covered field changed by truncation', dict(inp, field=name), v2, v1,
                         {'kind': 'covered', 'class': cname, 'field': name})
            if off >= L and v1 != 'N':
                ctx.fail('field beyond the end of the payload is not None', dict(inp, field=name), 'N', v1,
                         {'kind': 'absent', 'class': cname, 'field': name})

    def run(self, ctx):
        # (decoding is a function of the payload also while another thread of the program decodes something else:
        # the worker processes evaluate the cases next to a busy second thread)
        import os
        os.environ['VERIF_NOISE'] = '1'
        rng = ctx.rng('prefix')
        reps = 1 if ctx.tier == 'quick' else 12
        lines, meta = [], []
        for cname in sorted(gen.concrete_classes()):
            lo, full = self.lengths(cname)
            for _ in range(reps):
                bits = gen.payload_bits(rng, cname)
                step = 1 if (full <= 424 or ctx.tier == 'thorough') else 3
                for L in sorted(set(range(lo, full + 1, step)) | {full} |
                                {off for _, off, *_ in gen.field_offsets(gen.concrete_classes()[cname]) if off >= lo}):
                    lines.append('frombits %s' % bits[:L])
                    meta.append((cname, bits, L))
        outs = ctx.corr(lines, impl.step, 'frombits',
                        nontrivial=lambda l, o: not o.startswith('ERR:') and '=N' in o)
        fulls = {}
        for (cname, bits, L), o in zip(meta, outs):
            if L == len(bits):
                fulls[bits] = o
        for (cname, bits, L), o in zip(meta, outs):
            ctx.count('class:' + cname)
            self.check_prefix(ctx, cname, bits, L, o, fulls[bits], 'from_bitarray')
        # through real sentences: armored prefix with the matching fill-bit count
        lines2, meta2 = [], []
        for (cname, bits, L) in meta[::7 if ctx.tier == 'quick' else 2]:
            sents = gen.render(bits[:L], cuts=[c for c in (60, 120, 180) if c < (L + 5) // 6])
            lines2.append('decode 0 ' + ' '.join(s.hex() for s in sents))
            meta2.append((cname, bits, L))
        outs2 = ctx.corr(lines2, impl.step, 'decode',
                         nontrivial=lambda l, o: not o.startswith('ERR:') and '=N' in o)
        for (cname, bits, L), o in zip(meta2, outs2):
            self.check_prefix(ctx, cname, bits, L, o, fulls[bits], 'decode(sentences)')
        # ... and as several fragments handed to decode() in any order (the fill bits belong to the last
        # FRAGMENT, wherever it stands among the arguments)
        lines3, meta3 = [], []
        for (cname, bits, L) in meta[3::11 if ctx.tier == 'quick' else 3]:
            nchar = (L + 5) // 6
            if nchar < 2:
                continue
            k = rng.randint(1, min(3, nchar - 1))
            cuts = sorted(rng.sample(range(1, nchar), k))
            sents = gen.render(bits[:L], seq=str(rng.randint(0, 9)), cuts=cuts)
            order = list(range(len(sents)))
            rng.shuffle(order)
            if order == sorted(order):
                order.reverse()
            lines3.append('decode 0 ' + ' '.join(sents[i].hex() for i in order))
            meta3.append((cname, bits, L))
        outs3 = ctx.corr(lines3, impl.step, 'decode-shuffled',
                         nontrivial=lambda l, o: not o.startswith('ERR:') and '=N' in o)
        for (cname, bits, L), o in zip(meta3, outs3):
            self.check_prefix(ctx, cname, bits, L, o, fulls[bits], 'decode(shuffled fragments)')

    def replay(self, ctx, payload):
        inp = payload['failure']['input']
        bits, L = inp['bits'], inp['length']
        if inp.get('via') != 'from_bitarray':
            return None      # carrier cases: regenerated from the recorded seed by the generic replay
        self.check_prefix(ctx, inp['class'], bits, L, impl.step('frombits %s' % bits[:L]),
                          impl.step('frombits %s' % bits), 'from_bitarray')
        return not ctx.failures


PROP = Prop()
