"""C01 — decoding follows the published AIS bit layout for every message type."""
from .. import common, gen, impl


def cases(ctx, per_pattern_ctx=1, random_per_class=20):
    """payload bit strings of nominal length: every class × every field × sentinel patterns
    (all raw values for fields of ≤ 8 bits, i.e. every enum code and every six-bit character at the
    head of a text field) in random context, plus random payloads"""
    rng = ctx.rng('cases')
    out = []
    for cname, cls in sorted(gen.concrete_classes().items()):
        for name, off, w, d_type, signed, varlen in gen.field_offsets(cls):
            if name in ('msg_type',):
                continue
            t, disc = gen.TYPE_OF[cname]
            if any(off <= i < off + w for i in disc):
                continue            # discriminator bits select the layout; they are swept by class
            pats = set(gen.sentinel_patterns(w))
            if w <= 8:
                pats |= {gen.bits_of_int(v, w) for v in range(1 << w)}
            elif d_type is str:
                pats |= {gen.bits_of_int(v, 6) + '0' * (w - 6) for v in range(64)}
                pats |= {gen.bits_of_int(rng.getrandbits(w), w) for _ in range(4)}
            else:
                pats |= {gen.bits_of_int(rng.getrandbits(w), w) for _ in range(3)}
            for p in sorted(pats):
                for _ in range(per_pattern_ctx):
                    out.append((cname, name, gen.payload_bits(rng, cname, overrides={off: p})))
        for _ in range(random_per_class):
            out.append((cname, '*', gen.payload_bits(rng, cname)))
    # unsupported types 28..63 and part numbers 2, 3 must be rejected
    for t in list(range(28, 64)):
        out.append(('unsupported', 'type%d' % t, gen.bits_of_int(t, 6) + gen.bits_of_int(rng.getrandbits(162), 162)))
    for partno in (2, 3):
        out.append(('MessageType24', 'partno%d' % partno,
                    gen.bits_of_int(24, 6) + gen.bits_of_int(rng.getrandbits(32), 32) + gen.bits_of_int(partno, 2)
                    + gen.bits_of_int(rng.getrandbits(128), 128)))
    return out


def zero_text_padding(cname, bits):
    """the property quantifies over payloads whose sub-character padding bits of text fields are 0"""
    cls = gen.concrete_classes().get(cname)
    if cls is None:
        return bits
    b = list(bits)
    for name, off, w, d_type, signed, varlen in gen.field_offsets(cls):
        if d_type is str and w % 6:
            for i in range(off + w - w % 6, off + w):
                if i < len(b):
                    b[i] = '0'
    return ''.join(b)


class Prop:
    lean_files = ['PyaisVerif/Properties/C01.lean']
    rule = ('payloads of nominal length for all 35 layouts: every field × {all-zero, all-one, sign bit, min, max, '
            'every raw value of fields ≤ 8 bits, every six-bit character at the head of every text field, random} '
            'in random context, random payloads, unsupported types 28–63 and part numbers 2/3; each case is '
            'decoded by pyais, by the Lean model (correspondence) and checked against the Lean layout '
            'specification (spec.check); non-trivial = pyais returned a message ; also as a byte stream in small pieces through the socket readers (the delivered sentence carries the payload sent) and through the communication-state view of radio-carrying messages')
    assumptions = ['float results of the scaled converters are compared as exact decimals (≤ 6 places); '
                   'IEEE-754 rounding inside round()/division is modelled in exact arithmetic']
    trusted_extra = ['Spec/Layout.lean (Appendix A of DESIGN.md) says what ITU-R M.1371 / gpsd say']

    def run(self, ctx):
        cs = cases(ctx, random_per_class=20 if ctx.tier == 'quick' else 400)
        if ctx.tier == 'thorough':
            cs += cases(ctx, per_pattern_ctx=3, random_per_class=0)
        cs = [(c, f, zero_text_padding(c, b)) for c, f, b in cs]
        lines = ['frombits %s' % b for _, _, b in cs]
        outs = ctx.corr(lines, impl.step, 'frombits')
        for (c, f, b), o in zip(cs, outs):
            ctx.count('class:' + c)
        self.oracle(ctx, cs, outs)
        # end to end: the same payloads carried by NMEA sentences - one sentence, or several fragments handed to
        # decode() in any order (the layout is selected by the payload's own bits, whatever the carrier)
        rng = ctx.rng('e2e')
        sub = [x for x in cs[::6 if ctx.tier == 'quick' else 2] if x[0] != 'unsupported']
        # shorter forms of the layouts that end in a variable-length field (whole octets / characters, among
        # them the lengths right at the fragment boundaries): the fields in front of it are where they are
        for cname, cls in sorted(gen.concrete_classes().items()):
            name, off, w, d_type, signed, varlen = gen.field_offsets(cls)[-1]
            if not varlen:
                continue
            unit = 6 if d_type is str else 8
            for k in sorted(set([1, 2, 5, 11, 42, w // unit] + gen.critical_tail_units(cls))):
                if k * unit <= w:
                    b = zero_text_padding(cname, gen.payload_bits(rng, cname))[:off + k * unit]
                    if d_type is str:
                        # keep the text free of the terminator so that its length is what was cut
                        b = b[:off] + ''.join(gen.bits_of_int(rng.randint(1, 31), 6) for _ in range(k))
                    sub.append((cname, 'tail%d' % k, b))
        lines, meta = [], []
        for c, f, b in sub:
            nchar = (len(b) + 5) // 6
            if nchar > 200 * 4:
                continue
            k = rng.randint(1 if nchar > 200 else 0, 3)
            cuts = sorted(rng.sample(range(1, nchar), min(k, nchar - 1)))
            pts = [0] + cuts + [nchar]
            if any(q - p_ > 200 for p_, q in zip(pts, pts[1:])):
                cuts = list(range(150, nchar, 150))
            sents = gen.render(b, seq=str(rng.randint(1, 9)) if cuts else '', cuts=cuts)
            if cuts and len(b) > 12 and rng.random() < 0.3:
                # cut at arbitrary bit positions: every fragment padded on its own, with its own fill bits
                bc = sorted(rng.sample(range(1, len(b)), min(len(cuts), len(b) - 1)))
                if all(q - p_ <= 1200 for p_, q in zip([0] + bc, bc + [len(b)])):
                    sents = gen.render_ragged(b, bc, seq=str(rng.randint(1, 9)))
            rng.shuffle(sents)
            lines.append('decode 0 ' + ' '.join(x.hex() for x in sents))
            meta.append((c, f + '/sentences', b))
        outs2 = ctx.corr(lines, impl.step, 'decode')
        self.oracle(ctx, meta, outs2, via=lines)
        # ... carried by a byte stream that arrives in small pieces (a sentence in three or more of them) through the
        # socket readers: the delivered sentence carries exactly the payload bits (whose decoding is checked above)
        lines, meta = [], []
        for c, f, b in sub[::3]:
            if (len(b) + 5) // 6 > 200:
                continue
            sent = gen.render(b)[0]
            stream = sent + b'\r\n' + gen.render(gen.payload_bits(rng, 'MessageType27'))[0] + b'\n'
            k = rng.choice([3, 5, 9, len(stream) // 4])
            cuts = sorted(set(rng.sample(range(1, len(stream)), min(k, len(stream) - 1))))
            pts = [0] + cuts + [len(stream)]
            lines.append('socket 0 ' + ' '.join(stream[a:q].hex() for a, q in zip(pts, pts[1:])))
            meta.append((c, f, b, sent))
        outs3 = ctx.corr(lines, impl.step, 'socket')
        for (c, f, b, sent), o, op in zip(meta, outs3, lines):
            first = o.split(' ; ')[0]
            if ('bits=%s ' % (b or '-')) not in first + ' ' or ('raw=%s ' % sent.hex()) not in first:
                ctx.fail('the sentence delivered by the socket readers does not carry the payload that was sent',
                         {'socket_op': op, 'bits': b, 'class': c, 'sent': sent.hex()}, 'raw=%s… bits=%s…' % (sent.hex()[:40], b[:40]), first[:300],
                         {'kind': 'socket-carrier', 'class': c})
        # ... and the communication state a decoded message reports (one more view of the radio bits of the layout)
        from .c20 import RADIO_CLASSES, spec_commstate, utc_valid
        widths = dict(RADIO_CLASSES)
        lines, meta = [], []
        for c, f, b in cs:
            if c in widths and len(b) == gen.total_width(gen.concrete_classes()[c]):
                lines.append('commstate_bits %s' % b)
                meta.append((gen.TYPE_OF[c][0], int(b[-widths[c]:], 2), b))
        outs4 = common.pmap(impl.step, lines)
        ctx.evaluations += len(lines)
        ctx.corr_commands['commstate_bits(oracle only)'] = len(lines)
        for (t, r, b), o in zip(meta, outs4):
            so, raw, d = spec_commstate(t, r)
            if not utc_valid(raw) and so:
                continue
            exp = '%s %s %d %s' % (str(so).lower(), str(not so).lower(), raw, impl.show_cs(d))
            if o != exp:
                ctx.fail('the communication state a decoded message reports differs from the ITU reading of its radio bits',
                         {'commstate_op': 'commstate_bits %s' % b, 'type': t, 'radio': r, 'expected': exp}, exp, o,
                         {'kind': 'commstate', 'type': t})

    def members(self):
        """member values of the library's enumeration classes (the enumerations are part of its API)"""
        import enum
        out = []
        for name, c in vars(impl.K).items():
            if isinstance(c, type) and issubclass(c, enum.Enum) and c is not enum.Enum:
                try:
                    vals = [str(int(m.value)) for m in c]
                except (TypeError, ValueError):
                    continue
                if vals:
                    out.append('%s:%s' % (name, ','.join(vals)))
        return ';'.join(out) or '-'

    def oracle(self, ctx, cs, outs, via=None):
        """the implementation's answer against the layout specification (specification driver: it does
        not depend on the tables generated from the source)"""
        mem = self.members()
        q = []
        for (c, f, b), o in zip(cs, outs):
            q.append('spec.check %s %s %s' % (b, o if not o.startswith('ERR:') else 'ERR|', mem))
        res = common.run_spec(q)
        for i, ((c, f, b), o, r) in enumerate(zip(cs, outs, res)):
            extra = {'op': via[i]} if via else {}
            if o.startswith('ERR:'):
                if not r.startswith('REJECT:') or r[7:] != o[4:]:
                    ctx.fail('payload rejected (or rejected with the wrong exception) although the layout '
                             'specification selects a layout', dict({'bits': b, 'class': c, 'field': f}, **extra),
                             r, o, {'kind': 'reject', 'class': c})
            elif r != 'OK':
                ctx.fail('decoded message differs from the published layout', dict({'bits': b, 'class': c, 'field': f}, **extra),
                         r, o, {'kind': 'layout', 'class': c, 'detail': r})

    def search(self, ctx, broken):
        # directed sweep with more context per pattern
        cs = [(c, f, zero_text_padding(c, b)) for c, f, b in cases(ctx, per_pattern_ctx=2, random_per_class=50)]
        outs = [impl.step('frombits %s' % b) for _, _, b in cs]
        self.oracle(ctx, cs, outs)

    def replay(self, ctx, payload):
        inp = payload['failure']['input']
        if 'socket_op' in inp:
            first = impl.step(inp['socket_op']).split(' ; ')[0]
            print('observed:', first[:300])
            return ('bits=%s ' % (inp['bits'] or '-')) in first + ' ' and ('raw=%s ' % inp['sent']) in first
        if 'commstate_op' in inp:
            o = impl.step(inp['commstate_op'])
            print('observed:', o, 'expected:', inp['expected'])
            return o == inp['expected']
        cs = [(inp.get('class', '?'), inp.get('field', '?'), inp['bits'])]
        ctx.model_available = True
        if 'op' in inp:
            self.oracle(ctx, cs, [impl.step(inp['op'])], via=[inp['op']])
        else:
            self.oracle(ctx, cs, [impl.step('frombits %s' % inp['bits'])])
        return not ctx.failures


PROP = Prop()
