"""C07 — every ingestion path delivers the same messages for the same lines."""
import glob
import os
import re

from .. import common, gen, impl, nmea_cases

KEYS = ('raw', 'pl', 'bits', 'valid', 'w', 'tb', 'fc', 'fn', 'seq', 'ch', 'fill', 'chk', 'id')


def deliveries(out):
    res, tb, crash = [], [], None
    for item in out.split(' ; ') if out != '-' else []:
        m = re.match(r'D\d+:\[(.*)\]$', item)
        if m:
            body = ' ' + m.group(1)
            res.append(tuple(re.search(r' %s=(\S*)' % k, body).group(1) for k in KEYS))
        elif item.startswith('T'):
            tb.append(item.split(':', 1)[1])
        elif item.startswith('CRASH'):
            crash = item
    return res, tb, crash


def fixture_lines():
    out = []
    for p in sorted(glob.glob(os.path.join(common.REPO, 'tests', '*.ais')) +
                    glob.glob(os.path.join(common.REPO, 'tests', 'ais_test_messages')) +
                    glob.glob(os.path.join(common.REPO, 'examples', '*.nmea')) +
                    glob.glob(os.path.join(common.REPO, 'examples', 'sample.ais'))):
        with open(p, 'rb') as f:
            lines = [l.rstrip(b'\r\n') for l in f.read().split(b'\n')]
        out.append((os.path.basename(p), [l for l in lines if l][:150]))
    return out


class Prop:
    lean_files = ['PyaisVerif/Properties/C07.lean']
    rule = ('line sequences from the repository fixtures and generated mixes of single and multi-part messages '
            '(interleaved, out of order), Gatehouse wrappers, tag-blocked sentences and groups, foreign $GP lines, '
            'garbage and too-short lines (all starting with $ ! \\ or unparseable: the documented domain), with and '
            'without a TagBlockQueue; each sequence is fed to IterMessages, ByteStream, BinaryIOStream (LF-joined '
            'file), SocketStream (seeded random chunking, CRLF), NMEAQueue, and every delivered message\'s parts to '
            'decode(); all deliveries (raw, payload, bits, validity, wrapper, tag block, carrier fields) must agree; '
            'each run is also compared with the Lean model; non-trivial = at least one multi-part delivery ; attaching a TagBlockQueue must not change the deliveries; sentences behind unparsable tag blocks; sequence id 0 next to the empty id in every interleaving; every reader through its self-consistency family (DESIGN §4.2)')
    assumptions = ['lines with leading whitespace or a start delimiter other than $ ! \\ are the documented difference '
                   'between IterMessages/NMEAQueue and the Stream front-ends and are excluded']

    def sequences(self, ctx):
        rng = ctx.rng('c07')
        seqs = list(fixture_lines())
        for i in range(150 if ctx.tier == 'quick' else 10000):
            parts = []
            for _ in range(rng.randint(2, 7)):
                r = rng.random()
                if r < 0.3:
                    one = gen.render(gen.payload_bits(rng, rng.choice(['MessageType1', 'MessageType18', 'MessageType4'])),
                                     chan=rng.choice('AB'))[0]
                    if rng.random() < 0.1:
                        one = one[:one.rindex(b'*')]              # no checksum field at all
                    elif rng.random() < 0.1:
                        # the shortest sentences there are: hardly any payload, no sequence id
                        one = gen.sentence('AIVDM', 1, 1, '', rng.choice('AB'), rng.choice(['', '0', '1P']), 0)
                    elif rng.random() < 0.15:
                        # the sentence formatter is not case sensitive for the factory: neither may it be for any reader
                        tk = rng.choice(['AIvdm', 'aivdm', 'AIVdo', 'aiVDM', 'BSvdm', 'abvdo'])
                        one = gen.render(gen.payload_bits(rng, rng.choice(['MessageType1', 'MessageType18'])), talker=tk,
                                         chan=rng.choice('AB'))[0]
                    parts.append([one])
                elif r < 0.6:
                    n = rng.randint(2, 4)
                    bits = gen.payload_bits(rng, 'MessageType8', length=rng.randint(200, 900))
                    payload, _ = gen.armor(bits)
                    cuts = sorted(rng.sample(range(1, len(payload)), n - 1))
                    # sequence ids 0-9 and the empty id (distinct slots, also 0 versus empty)
                    seq = rng.choice(['0', '', '1', '1', str(len(parts) % 10), str(rng.randint(0, 9))])
                    chan = rng.choice('AB')
                    lines = gen.render(bits, seq=seq, chan=chan, cuts=cuts)
                    if rng.random() < 0.12:
                        # one fragment with an EMPTY payload (the shape of pyais issue #157: `!AIVDM,2,2,0,A,,0*16`)
                        pts = [0] + cuts[:-1] + [len(payload)]
                        chunks = [payload[a:b] for a, b in zip(pts, pts[1:])]
                        chunks.insert(rng.randint(1, n - 1), '')
                        fill = (6 - len(bits) % 6) % 6
                        last = max(i for i, c in enumerate(chunks) if c)
                        lines = [gen.sentence('AIVDM', n, i + 1, seq, chan, c, fill if i == last else 0)
                                 for i, c in enumerate(chunks)]
                    if rng.random() < 0.5:
                        rng.shuffle(lines)
                    if rng.random() < 0.3:
                        # an incomplete set: orphaned fragments stay behind in their slot (all front-ends must
                        # still agree on what later messages in that slot look like)
                        del lines[rng.randrange(len(lines))]
                    if rng.random() < 0.15:
                        # a sentence whose checksum was cut off is still a sentence (flagged invalid)
                        k = rng.randrange(len(lines))
                        lines[k] = lines[k][:lines[k].rindex(b'*')]
                    parts.append(lines)
                elif r < 0.72:
                    if rng.random() < 0.2:
                        parts.append([gen.gatehouse(d=rng.choice([1, 28]), tag=rng.choice([b'PGhp', b'pghp', b'PGHp']))])
                    else:
                        parts.append([gen.gatehouse(d=rng.choice([1, 28, 31]), mo=rng.choice([1, 2, 12]))])
                elif r < 0.84:
                    t = rng.randint(1, 3)
                    gid = rng.randint(1, 999)
                    parts.append([gen.tag_block(b'g:%d-%d-%d,s:st' % (j + 1, t, gid)) +
                                  gen.render(gen.payload_bits(rng, 'MessageType1'))[0] for j in range(t)])
                elif r < 0.92:
                    if rng.random() < 0.4:
                        # a sentence behind a tag block that cannot be parsed (no / non-hex / two checksums): with or
                        # without a TagBlockQueue the sentence itself is delivered
                        tb = rng.choice([b'\\s:x,c:123\\', b'\\s:y*ZZ\\', b'\\s:z*2A*2A\\', b'\\g:1-2-7\\', b'\\*\\'])
                        parts.append([tb + gen.render(gen.payload_bits(rng, 'MessageType1'), chan=rng.choice('AB'))[0]])
                        continue
                    parts.append([rng.choice([b'$GPGGA,123519,4807.038,N,01131.000,E,1,08,0.9,545.4,M,46.9,M,,*47',
                                              b'!AIVDM,1,1,,A,\x00\x01,0*00', b'$PGHP,1,2021,2,30,3,4,5,6,219,1,2,1,6D*00',
                                              b'!short', b'\\s:x*00\\!AIVDM,garbage', b'!AIVDM,1,1,,A,,0*26',
                                              # line noise: short, not ASCII (every reader drops it and carries on)
                                              b'!\xc3\xa9', b'$\xff\xfe', b'!sh\xf8rt', b'\\\xe6\xb8\xaf', b'!AIVDM,\xff'])])
                else:
                    parts.append([gen.tag_block(b's:only') + gen.render(gen.payload_bits(rng, 'MessageType27'))[0]])
            if i % 3 == 0:
                # slot reuse: the sets one after the other (interleaving would put two sets into one slot at once)
                seqs.append(('gen%d' % i, [l for p_ in parts for l in p_]))
            else:
                seqs.append(('gen%d' % i, gen.random_interleaving(rng, parts)))
        # the delicate neighbours, always: a message with sequence id 0 and one without sequence id in flight on the
        # same channel (two different reassembly slots), in every interleaving pattern, with a wrapper in front
        for i in range(12 if ctx.tier == 'quick' else 200):
            chan = 'AB'[i % 2]
            sets = []
            for seq in ('0', ''):
                n = rng.randint(2, 3)
                bits = gen.payload_bits(rng, 'MessageType8', length=rng.randint(150, 500))
                payload, _ = gen.armor(bits)
                sets.append(gen.render(bits, seq=seq, chan=chan, cuts=sorted(rng.sample(range(1, len(payload)), n - 1))))
            if i % 3 == 2:
                sets.append(gen.render(gen.payload_bits(rng, 'MessageType5'), seq=str(rng.randint(1, 9)), chan=chan, cuts=[30]))
            if i % 4 == 1:
                sets.append([gen.gatehouse(d=rng.choice([1, 28]))])
            if i < 4:
                a, b = sets[0], sets[1]
                lines = [[a[0], b[0]] + a[1:] + b[1:], [b[0], a[0]] + b[1:] + a[1:], [a[0], b[0]] + b[1:] + a[1:],
                         [b[0], a[0]] + a[1:] + b[1:]][i] + [x for s_ in sets[2:] for x in s_]
            else:
                lines = gen.random_interleaving(rng, sets)
            seqs.append(('zero-vs-empty%d' % i, lines))
        # many messages in flight at once, each in its own slot - more than the ids 0-9 on two channels give: other
        # channel designators, two-digit ids (whose text run together with the channel must not collide: 1 + '1', 11 + '')
        slots = [(s_, c) for c in ['A', 'B', '1', '2', '', 'C', 'D'] for s_ in [''] + [str(i) for i in range(13)]]
        for i, n in enumerate([23, 34, 66, 70, len(slots)] if ctx.tier == 'quick' else [23, 33, 34, 65, 66, 70, 98] * 6):
            chosen = rng.sample(slots, n)
            for must in (('1', '1'), ('11', '')):
                if must not in chosen:
                    chosen[0 if must[0] == '1' else 1] = must
            sets = []
            for seq, chan in chosen:
                bits = gen.payload_bits(rng, rng.choice(['MessageType5', 'MessageType8']), length=rng.randint(430, 600))
                payload, _ = gen.armor(bits)
                sets.append(gen.render(bits, seq=seq, chan=chan, cuts=[rng.randint(10, 60)]))
            if i % 2 == 0:
                lines = [f[0] for f in sets] + [gen.gatehouse()] + [f[1] for f in sets]
            else:
                lines = gen.random_interleaving(rng, sets)
            seqs.append(('many-slots%d-%d' % (n, i), lines))
        # slot histories: several fragment sets one after the other in ONE (sequence id, channel) slot, some of
        # them incomplete (the receiver missed fragments), so that leftovers of earlier sets are still around when a
        # later set of another size arrives; all front-ends must agree on every later delivery
        for i in range(200 if ctx.tier == 'quick' else 15000):
            seq, chan = rng.choice(['1', '0', '', '7']), rng.choice('AB')
            lines = []
            for _ in range(rng.randint(2, 4)):
                n = rng.randint(2, 4)
                bits = gen.payload_bits(rng, 'MessageType8', length=rng.randint(120, 500))
                payload, _ = gen.armor(bits)
                cuts = sorted(rng.sample(range(1, len(payload)), n - 1))
                frs = gen.render(bits, seq=seq, chan=chan, cuts=cuts)
                r = rng.random()
                if r < 0.35:
                    keep = rng.sample(range(n), rng.randint(1, n - 1))       # only some fragments were received
                    frs = [frs[j] for j in sorted(keep)]
                elif r < 0.5:
                    rng.shuffle(frs)
                lines += frs
                if rng.random() < 0.3:
                    lines.append(gen.render(gen.payload_bits(rng, 'MessageType1'), chan=chan)[0])
            seqs.append(('slot%d' % i, lines))
        return seqs, rng

    def run(self, ctx):
        seqs, rng = self.sequences(ctx)
        ops, meta = [], []
        for name, lines in seqs:
            hexes = ' '.join(impl.hx(l) for l in lines)
            for tbq in (0, 1):
                ops.append('stream iter %d %s' % (tbq, hexes)); meta.append((name, lines, tbq, 'iter'))
                ops.append('stream bytestream %d %s' % (tbq, hexes)); meta.append((name, lines, tbq, 'bytestream'))
                ops.append('stream queue %d %s' % (tbq, hexes)); meta.append((name, lines, tbq, 'queue'))
                content = b''.join(l + b'\n' for l in lines)
                ops.append('file %d %s' % (tbq, content.hex())); meta.append((name, lines, tbq, 'file'))
                stream = b''.join(l + b'\r\n' for l in lines)
                k = rng.randint(0, 12)
                cuts = sorted(set(rng.sample(range(1, len(stream)), min(k, len(stream) - 1))))
                pts = [0] + cuts + [len(stream)]
                ops.append('socket %d %s' % (tbq, ' '.join(stream[a:b].hex() for a, b in zip(pts, pts[1:]))))
                meta.append((name, lines, tbq, 'socket'))
        outs = ctx.corr(ops, impl.step, 'frontends', nontrivial=lambda l, o: '0a21' in o or '0a5c' in o)
        ref, plain = {}, {}
        oneshot_ops, oneshot_meta = [], []
        for (name, lines, tbq, fe), o in zip(meta, outs):
            ctx.count('frontend:' + fe)
            d = deliveries(o)
            inp = {'sequence': name, 'frontend': fe, 'tbq': tbq, 'lines': [impl.hx(l) for l in lines]}
            if d[2]:
                ctx.fail('a front-end raised', inp, 'no exception', d[2], {'kind': 'crash', 'frontend': fe})
                continue
            if tbq == 1 and (name, 0, fe) in plain and plain[(name, 0, fe)] != d[0]:
                ctx.fail('attaching a TagBlockQueue changes the messages a front-end delivers', inp,
                         '%d deliveries as without' % len(plain[(name, 0, fe)]), '%d deliveries' % len(d[0]),
                         {'kind': 'tbq-changes-deliveries', 'frontend': fe})
            if tbq == 0:
                plain[(name, 0, fe)] = d[0]
            if fe == 'iter':
                ref[(name, tbq)] = d
                if tbq == 0:
                    for dl in d[0]:
                        parts = bytes.fromhex(dl[0]).split(b'\n')
                        oneshot_ops.append('decode 0 ' + ' '.join(p.hex() for p in parts))
                        oneshot_meta.append((name, dl))
                        if len(parts) > 1:      # any order of the parts
                            oneshot_ops.append('decode 0 ' + ' '.join(p.hex() for p in parts[::-1]))
                            oneshot_meta.append((name, dl))
                continue
            r = ref[(name, tbq)]
            if d[0] != r[0]:
                diff = next((i for i, (a, b) in enumerate(zip(d[0], r[0])) if a != b), min(len(d[0]), len(r[0])))
                ctx.fail('front-ends deliver different messages for the same lines', inp,
                         'as IterMessages (%d deliveries)' % len(r[0]),
                         '%d deliveries, first difference at #%d' % (len(d[0]), diff), {'kind': 'frontends', 'frontend': fe})
            elif d[1] != r[1]:
                ctx.fail('front-ends put different lists on the tag block queue', inp, len(r[1]), len(d[1]),
                         {'kind': 'frontends-tbq', 'frontend': fe})
        # decode() of a message's parts agrees with decoding the delivered sentence
        outs = ctx.corr(oneshot_ops, impl.step, 'decode')
        for (name, dl), o, op in zip(oneshot_meta, outs, oneshot_ops):
            try:
                heads = [bytes.fromhex(x).split(b'\\')[-1].split(b',')[1:3] for x in op.split()[2:]]
                consistent = len({h[0] for h in heads}) == 1 and \
                    sorted(int(h[1]) for h in heads) == list(range(1, int(heads[0][0]) + 1))
            except (ValueError, IndexError):
                consistent = False
            if not consistent:
                # a "message" the readers glued together from leftovers of incomplete sets: decode() of such
                # parts is outside the property (the correspondence with the model still covers it)
                ctx.count('oneshot:inconsistent-parts-skipped')
                continue
            exp = impl.step('frombits %s' % dl[2]) if dl[1] != '-' else 'ERR:MissingPayloadException'
            if o != exp:
                ctx.fail('decode() of the parts differs from decoding the sentence the readers deliver',
                         {'sequence': name, 'parts': op.split()[2:]}, exp[:150], o[:150], {'kind': 'oneshot'})

    def replay(self, ctx, payload):
        inp = payload['failure']['input']
        if 'parts' in inp:
            # decode() of the parts vs the sentence IterMessages assembles from them
            parts = inp['parts']
            o = impl.step('decode 0 ' + ' '.join(parts))
            d = deliveries(impl.step('stream iter 0 ' + ' '.join(sorted(parts))))
            exps = {impl.step('frombits %s' % dl[2]) if dl[1] != '-' else 'ERR:MissingPayloadException' for dl in d[0]}
            print('decode():', o[:200], 'readers:', [e[:200] for e in exps])
            return o in exps
        lines = [impl.unhx(x) for x in inp['lines']]
        hexes = ' '.join(inp['lines'])
        tbq, fe = inp['tbq'], inp['frontend']
        if (payload['failure'].get('signature') or {}).get('kind') == 'tbq-changes-deliveries':
            # the same front-end with and without a TagBlockQueue
            def run(t):
                if fe in ('iter', 'bytestream', 'queue'):
                    return deliveries(impl.step('stream %s %d %s' % (fe, t, hexes)))
                if fe == 'file':
                    return deliveries(impl.step('file %d %s' % (t, b''.join(l + b'\n' for l in lines).hex())))
                return deliveries(impl.step('socket %d %s' % (t, b''.join(l + b'\r\n' for l in lines).hex())))
            a, b = run(0), run(1)
            print('without a TagBlockQueue %d deliveries, with one %d' % (len(a[0]), len(b[0])))
            return a[0] == b[0] and not b[2]
        ref = deliveries(impl.step('stream iter %d %s' % (tbq, hexes)))
        if fe in ('iter', 'bytestream', 'queue'):
            d = deliveries(impl.step('stream %s %d %s' % (fe, tbq, hexes)))
        elif fe == 'file':
            d = deliveries(impl.step('file %d %s' % (tbq, b''.join(l + b'\n' for l in lines).hex())))
        else:
            stream = b''.join(l + b'\r\n' for l in lines)
            rng = ctx.rng('replay')
            ok = True
            for _ in range(20):
                cuts = sorted(set(rng.sample(range(1, len(stream)), min(rng.randint(0, 12), len(stream) - 1))))
                pts = [0] + cuts + [len(stream)]
                d = deliveries(impl.step('socket %d %s' % (tbq, ' '.join(stream[a:b].hex() for a, b in zip(pts, pts[1:])))))
                ok = ok and not d[2] and d[0] == ref[0] and d[1] == ref[1]
            return ok
        print('reference deliveries %d, %s deliveries %d, exception %r' % (len(ref[0]), fe, len(d[0]), d[2]))
        return not d[2] and d[0] == ref[0] and d[1] == ref[1]


PROP = Prop()
