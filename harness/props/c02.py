"""C02 — encode then decode returns the message that was encoded."""
import enum
import math
from decimal import Decimal
from fractions import Fraction

from .. import common, gen, impl

M = impl.M


def rhe(fr):
    """round half to even of a Fraction"""
    f = math.floor(fr)
    d = fr - f
    if d > Fraction(1, 2) or (d == Fraction(1, 2) and f % 2 == 1):
        return f + 1
    return f


_SPEC_KINDS = {}


def spec_kind(cname, field):
    """the kind the *layout specification* (Spec/Layout.lean) gives the field - not what the library's converters look like"""
    if not _SPEC_KINDS:
        names = sorted(gen.concrete_classes())
        for c, lay in zip(names, common.run_spec(['spec.layout %s' % c for c in names])):
            if lay not in ('UNKNOWN', 'BAD-OP'):
                for fld in lay.split(';'):
                    n, w, k = fld.split(':', 2)
                    _SPEC_KINDS[(c, n)] = k
    return _SPEC_KINDS.get((cname, field))


def scaled_kind(f, cname=None):
    """(scale, mode) of a float field from the layout (independent of the converters): returns
    ('I4'|'I600'|'T10'|'ROT'|'PLAIN')"""
    k = spec_kind(cname, f.name) if cname else None
    if k in ('I4', 'I600', 'ROT'):
        return k
    if k in ('I1', 'U1'):
        return 'T10'
    if k == 'uf':
        return 'PLAIN'
    md = f.metadata
    name, w, signed = f.name, md['width'], md['signed']
    if name == 'turn':
        return 'ROT'
    if name in ('lon', 'lat', 'ne_lon', 'ne_lat', 'sw_lon', 'sw_lat'):
        if w in (28, 27):
            return 'I4'
        if md['to_converter'] is not None and md['to_converter'].__name__ == 'to_lat_lon_600':
            return 'I600'
        return 'T10'
    if md['to_converter'] is None:
        return 'PLAIN'
    return 'T10'


def rot_expected(v):
    """ITU rate of turn: value -> wire -> value"""
    if v == 0:
        return 0, 0
    raw = int(math.copysign(rhe(Fraction(4733, 1000) * Fraction(math.isqrt(abs(v) * 10 ** 12), 10 ** 6)), v))
    # exact: round(4.733*sqrt(|v|)) via the defining inequalities
    n = 0
    while (2 * n + 1) ** 2 * 10 ** 6 <= 4 * 4733 ** 2 * abs(v):
        n += 1
    raw = n if v > 0 else -n
    back = rhe(Fraction(raw * raw * 10 ** 6, 4733 * 4733))
    return raw, (back if v > 0 else -back)


def gen_value(rng, cls, f, cname):
    """(python value to pass, canonical expected decoded value) for one field, in range"""
    md = f.metadata
    name, w, d_type, signed, varlen = f.name, md['width'], md['d_type'], md['signed'], md['variable_length']
    conv = md['to_converter'] or f.converter
    ecls = gen.enum_members(conv) if conv is not None else None
    if d_type is bool:
        b = rng.random() < 0.5
        return rng.choice([b, int(b)]), 'b:%d' % b
    if d_type is int:
        if ecls is not None:
            m = rng.choice(list(ecls))
            return rng.choice([m, int(m.value)]), 'e:%s:%d' % (ecls.__name__, m.value)
        if w == 30 and (name.startswith('mmsi') or name.startswith('dest')):
            v = rng.choice([0, 1, 999999999, (1 << w) - 1, rng.randrange(1 << w)])
            return rng.choice([v, str(v)]), 'i:%d' % v
        v = rng.choice([0, 1, (1 << w) - 1, (1 << w) - 2, rng.randrange(1 << w)])
        return v, 'i:%d' % v
    if d_type is float:
        kind = scaled_kind(f, cname)
        if kind == 'ROT':
            v = rng.choice([0, 1, -1, 5, -20, 100, -127, 127, -128, 128, 126, -126, 129, -129, rng.randint(-130, 130), rng.choice([-1, 1]) * rng.choice([709, 720, 300])])
            if v in (127, -127):
                return float(v), 'e:TurnRate:%d' % v
            if v == -128:
                return float(v), 'e:TurnRate:-128'
            if abs(v) > 130:
                # wire-representable large values
                raw = rng.choice([-126, 126, -100, 100])
                back = rhe(Fraction(raw * raw * 10 ** 6, 4733 * 4733))
                v = back if raw > 0 else -back
                return float(v), 'f:%d' % (v * 10 ** 6)
            raw, back = rot_expected(v)
            if abs(raw) >= 127:
                return 0.0, 'f:0'
            return float(v), 'f:%d' % (back * 10 ** 6)
        lo, hi = (-(1 << (w - 1)), (1 << (w - 1)) - 1) if signed else (0, (1 << w) - 1)    # (incl. the all-ones code)
        if kind in ('I4', 'I600'):
            k = 600000 if kind == 'I4' else 600
            lim = min(hi, (180 if 'lon' in name else 90) * k)
            wire = rng.choice([0, 1, -1, lim, -lim, rng.randint(-lim, lim)])
            if rng.random() < 0.5:
                micro = rhe(Fraction(wire * 10 ** 6, k))          # wire-representable value
            else:
                micro = rng.randint(-lim * 10 ** 6 // k, lim * 10 ** 6 // k)   # arbitrary 6-decimal value
            wire2 = rhe(Fraction(micro * k, 10 ** 6))
            exp = rhe(Fraction(wire2 * 10 ** 6, k))
            return float(Decimal(micro) / 10 ** 6), 'f:%d' % exp
        if kind == 'T10':
            wire = rng.choice([lo, hi, hi - 1, 0, 1, rng.randint(lo, hi)])
            extra = rng.choice([0, 0, 3, 9]) if wire >= 0 else -rng.choice([0, 0, 3, 9])     # hundredths: truncated
            micro = wire * 100000 + extra * 10000
            exp_wire = int(Fraction(micro * 10, 10 ** 6))           # trunc toward zero
            if micro < 0 and Fraction(micro * 10, 10 ** 6) != exp_wire:
                exp_wire = -int(Fraction(-micro * 10, 10 ** 6))
            if not (lo <= exp_wire <= hi):
                exp_wire, micro = wire, wire * 100000
            return float(Decimal(micro) / 10 ** 6), 'f:%d' % (exp_wire * 100000)
        wire = rng.choice([0, 1, hi, hi - 1, rng.randint(0, hi)])
        return rng.choice([float(wire), wire]), 'f:%d' % (wire * 10 ** 6)
    if d_type is str:
        n = w // 6
        crit = gen.critical_tail_units(cls) if varlen else []
        if crit and rng.random() < 0.5:
            k = rng.choice(crit)          # message length right at a fragment boundary of the encoder
            s = ''.join(rng.choice('ABCDEFGHIJKLMNOPQRSTUVWXYZ0123456789') for _ in range(k))
            return s, 's:' + s.encode().hex()
        s = gen.random_text(rng, n)
        if varlen and s == '':
            s = 'A'
        give = s.lower() if rng.random() < 0.3 else s
        return give, 's:' + s.upper().encode().hex()
    if d_type is bytes:
        nb = (w + 7) // 8
        if name.startswith('spare') or name.startswith('reserved'):
            return b'', 'y:' + ('00' * nb)
        if varlen and rng.random() < 0.08:
            return b'', 'y:'                 # no application data at all (the default)
        if varlen:
            crit = gen.critical_tail_units(cls)
            k = rng.choice([1, 2, nb // 2, nb] + crit + crit) if nb > 1 else 1
            k = max(1, min(nb, k))
            data = bytes(rng.getrandbits(8) for _ in range(k))
            return data, 'y:' + data.hex()
        data = bytearray(rng.getrandbits(8) for _ in range(nb))
        if w % 8:
            data[-1] &= (0xff << (8 - w % 8)) & 0xff
        return bytes(data), 'y:' + bytes(data).hex()
    raise ValueError(d_type)


DISCR = {'MessageType22Addressed': {'addressed': True}, 'MessageType22Broadcast': {'addressed': False},
         'MessageType24PartA': {'partno': 0}, 'MessageType24PartB': {'partno': 1}}
for _t in (25, 26):
    for _a in (0, 1):
        for _s in (0, 1):
            DISCR['MessageType%d%s%s' % (_t, 'Addressed' if _a else 'Broadcast', 'Structured' if _s else 'Unstructured')] = \
                {'addressed': bool(_a), 'structured': bool(_s)}


def kw_to_wire(kw):
    return ';'.join('%s=%s' % (k, impl.canon_val(v) if not isinstance(v, float) else 'f:%d' % int(Decimal(repr(v)) * 10 ** 6))
                    for k, v in kw.items()) or '-'


class Prop:
    lean_files = ['PyaisVerif/Properties/C02.lean']
    rule = ('all 35 concrete classes x seeded in-range field assignments following the library\'s own field tables '
            '(every field given; boundary values 0, 1, max, max-1, sign limits, every kind of scaled quantity as '
            'wire-representable and as arbitrary 6-decimal values, rate of turn incl. sentinels, enum members as int '
            'and as enum, text lower/upper case, binary of full and shorter length, str/int mmsi) through '
            'encode_dict with `type`, encode_dict with `msg_type`, and create()+encode_msg; the produced sentences are '
            'decoded again and every given field is compared with its expected value (exact / quantised per the '
            'standard); each call compared with the Lean model; non-trivial = a message was produced ; multi-sentence results also decoded in reverse order and read back through IterMessages / NMEAQueue behind the remains of a message that lost its middle sentence')
    assumptions = ['scaled inputs have at most 6 decimals so that float(v)*k is exact enough: IEEE rounding inside the '
                   'converters is modelled in exact arithmetic (validated exhaustively on <= 18-bit fields)']

    def make_cases(self, ctx, reps, salt='c02'):
        rng = ctx.rng(salt)
        import attr
        ops, meta = [], []
        for cname, cls in sorted(gen.concrete_classes().items()):
            t, disc = gen.TYPE_OF[cname]
            for rep in range(reps):
                kw, exp = {}, {}
                for f in attr.fields(cls):
                    if f.name == 'msg_type':
                        continue
                    if f.name in DISCR.get(cname, {}):
                        v = DISCR[cname][f.name]
                        kw[f.name] = v
                        exp[f.name] = ('b:%d' % v) if isinstance(v, bool) else 'i:%d' % v
                        continue
                    v, e = gen_value(rng, cls, f, cname)
                    kw[f.name] = v
                    exp[f.name] = e
                if cname.startswith('MessageType26') and rep == 0:
                    # the documented shorter form: binary data shorter than the field, followed by the radio status
                    kw['data'] = bytes(rng.getrandbits(8) for _ in range(rng.randint(1, 20)))
                    exp['data'] = 'y:' + kw['data'].hex()
                    kw['radio'] = rng.randint(1, (1 << 20) - 1)
                    exp['radio'] = 'i:%d' % kw['radio']
                for via in ('type', 'msg_type', 'create'):
                    k2 = dict(kw)
                    if via == 'type':
                        k2 = dict([('type', t)] + list(kw.items()))
                        ops.append('encode_dict %s %s %s' % (b'AIVDM'.hex(), b'A'.hex(), kw_to_wire(k2)))
                    elif via == 'msg_type':
                        k2 = dict([('msg_type', t)] + list(kw.items()))
                        ops.append('encode_dict %s %s %s' % (b'AIVDO'.hex(), b'B'.hex(), kw_to_wire(k2)))
                    else:
                        ops.append('encode_msg %s %s %s %s' % (cname, b'AIVDM'.hex(), b'B'.hex(), kw_to_wire(kw)))
                    meta.append((cname, via, exp, {'class': cname, 'via': via, 'op': ops[-1], 'expected': exp}))
        return ops, meta

    def spec_cases(self):
        """in-range values taken from the *layout specification* (Spec/Layout.lean, through the specification
        driver) rather than from the library's own field tables: the largest value and the top bit of every
        unsigned integer field of every class, all other fields at their defaults"""
        ops, meta = [], []
        names = sorted(gen.concrete_classes())
        layouts = common.run_spec(['spec.layout %s' % c for c in names])
        for cname, lay in zip(names, layouts):
            if lay in ('UNKNOWN', 'BAD-OP'):
                continue
            t = gen.TYPE_OF[cname][0]
            fixed = dict(DISCR.get(cname, {}))
            fixed['mmsi'] = 1
            # the keyword arguments the class insists on (no default), found by asking it
            import re
            for _ in range(6):
                try:
                    gen.concrete_classes()[cname].create(**fixed)
                    break
                except TypeError as e:
                    missing = re.findall(r"'(\w+)'", str(e))
                    if not missing:
                        break
                    for m_ in missing:
                        fixed.setdefault(m_, 1)
                except Exception:  # noqa
                    break
            for fld in lay.split(';'):
                name, w, kind = fld.split(':', 2)
                if kind != 'u' or name in ('msg_type',) or name in DISCR.get(cname, {}):
                    continue
                for v in sorted({(1 << int(w)) - 1, 1 << (int(w) - 1)}):
                    kw = dict([('type', t)] + [(k_, v_) for k_, v_ in fixed.items() if k_ != name] + [(name, v)])
                    exp = {name: 'i:%d' % v}
                    ops.append('encode_dict %s %s %s' % (b'AIVDM'.hex(), b'A'.hex(), kw_to_wire(kw)))
                    meta.append((cname, 'type', exp, {'class': cname, 'via': 'type', 'op': ops[-1], 'expected': exp}))
        return ops, meta

    def evaluate(self, ctx, ops, meta, corr=True):
        """encode (op) -> decode -> compare with the expected values"""
        outs = ctx.corr(ops, impl.step, 'encode') if corr else [impl.step(o) for o in ops]
        dops, dmeta = [], []
        for (cname, via, exp, inp), o in zip(meta, outs):
            ctx.count('class:' + cname)
            if o.startswith('ERR'):
                ctx.fail('an in-range message cannot be encoded', inp, 'sentences', o, {'kind': 'encode-raises', 'class': cname, 'exc': o[4:]})
                continue
            dops.append('decode 0 ' + ' '.join(o.split(',')))
            dmeta.append((cname, via, exp, inp))
        douts = ctx.corr(dops, impl.step, 'decode') if corr else [impl.step(o) for o in dops]
        for (cname, via, exp, inp), o in zip(dmeta, douts):
            if o.startswith('ERR'):
                ctx.fail('the encoded message cannot be decoded', inp, 'a message', o, {'kind': 'decode-raises', 'class': cname})
                continue
            cls_got, kv = o.split('|', 1)
            got = dict(x.split('=', 1) for x in kv.split(';'))
            t = gen.TYPE_OF[cname][0]
            if cls_got != cname or got.get('msg_type') != 'i:%d' % t:
                sub = 'default-msg_type' if (cname in ('MessageType2', 'MessageType3', 'MessageType11', 'MessageType13')
                                             and got.get('msg_type') != 'i:%d' % t) else 'class'
                ctx.fail('decoded message has a different type/variant than the encoded one', inp,
                         '%s msg_type=%d' % (cname, t), '%s msg_type=%s' % (cls_got, got.get('msg_type')),
                         {'kind': sub, 'class': cname, 'via': 'create' if via == 'create' else 'encode_dict'})
                continue
            bad = [(k, e, got.get(k)) for k, e in exp.items() if got.get(k) != e]
            if bad:
                how = 'short-data-loses-radio' if (cname.startswith('MessageType26') and
                                                   {k for k, _, _ in bad} <= {'data', 'radio'}) else 'value'
                if all(e == 'y:' and g == 'N' for _, e, g in bad):
                    how = 'empty-binary->None'
                ctx.fail('a decoded field differs from the encoded value', dict(inp, field=bad[0][0]),
                         bad[0][1], bad[0][2], {'kind': 'field', 'class': cname, 'fields': sorted(k for k, _, _ in bad)[:3], 'how': how})

        # the sentences of a multi-sentence message handed to decode() in reverse order, and sent through the readers
        # and the queue behind the remains of an earlier message that lost its middle sentence (the encoder gives
        # every multi-sentence message the sequence id 0, so they all share one reassembly slot per channel)
        import re
        rops, rmeta = [], []
        for (cname, via, exp, inp), fwd, dop in zip(dmeta, douts, dops):
            sents = dop.split()[2:]
            if len(sents) < 2 or fwd.startswith('ERR'):
                continue
            rops.append('decode 0 ' + ' '.join(sents[::-1]))
            rmeta.append(('reversed', cname, inp, fwd, None))
            if len(sents) == 2:
                chan = bytes.fromhex(sents[0]).split(b',')[4].decode()
                lost = [x.hex() for x in self.lossy_prefix(chan)]
                for fe in ('queue', 'iter'):
                    rops.append('stream %s 0 %s' % (fe, ' '.join(lost + sents)))
                    rmeta.append((fe, cname, inp, fwd, b'\n'.join(bytes.fromhex(x) for x in sents).hex()))
        routs = ctx.corr(rops, impl.step, 'decode-reversed/readers') if corr else [impl.step(o) for o in rops]
        for (how, cname, inp, fwd, raw), o, op in zip(rmeta, routs, rops):
            if how == 'reversed':
                if o != fwd:
                    ctx.fail('decode() of the sentences in reverse order differs from decode() in the order emitted',
                             dict(inp, reader_op=op), fwd[:200], o[:200], {'kind': 'reversed', 'class': cname})
            else:
                raws = re.findall(r'\[raw=(\S*) ', o)
                if raws != [raw]:
                    ctx.fail('the message does not come back from the %s behind the remains of an incomplete message'
                             % ('NMEAQueue' if how == 'queue' else 'reader'), dict(inp, reader_op=op), [raw[:60]],
                             [r[:60] for r in raws] or o[:200], {'kind': 'lossy-channel', 'class': cname, 'frontend': how})

    _lossy = {}

    def lossy_prefix(self, chan):
        """sentences 1 and 3 of a three-sentence message on the given channel (number 2 was lost)"""
        if chan not in self._lossy:
            bits = gen.payload_bits(__import__('random').Random(7), 'MessageType8', length=1008)
            payload, _ = gen.armor(bits)
            three = gen.render(bits, seq='0', chan=chan, cuts=[60, 120])
            self._lossy[chan] = [three[0], three[2]]
        return self._lossy[chan]

    def run(self, ctx):
        ops, meta = self.make_cases(ctx, 40 if ctx.tier == 'quick' else 400)
        ops2, meta2 = self.spec_cases()
        self.evaluate(ctx, ops + ops2, meta + meta2)

    def search(self, ctx, broken):
        # more assignments per class, implementation only (the oracle is the expected value computed
        # from the standard's quantisation rules)
        ops, meta = self.make_cases(ctx, 60, salt='c02-search')
        self.evaluate(ctx, ops, meta, corr=False)

    def replay(self, ctx, payload):
        inp = payload['failure']['input']
        if 'reader_op' in inp:
            return None          # regenerated from the recorded seed by the generic replay
        # (the recorded assignment follows the field table of the tree it was generated on: fields the class does not
        # have on this tree are left out)
        import attr
        have = {f.name for f in attr.fields(gen.concrete_classes()[inp['class']])} | {'type', 'msg_type'}
        parts = inp['op'].split(' ')
        parts[-1] = ';'.join(kv for kv in parts[-1].split(';') if kv.split('=')[0] in have)
        exp = {k: v for k, v in inp['expected'].items() if k in have}
        meta = [(inp['class'], inp['via'], exp, dict(inp, op=' '.join(parts), expected=exp))]
        self.evaluate(ctx, [' '.join(parts)], meta, corr=False)
        return not ctx.failures


PROP = Prop()
