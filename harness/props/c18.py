"""C18 — a Gatehouse wrapper is attached to the next delivered message only."""
import re

from .. import gen, impl


def parse_out(out):
    res = []
    for item in out.split(' ; ') if out != '-' else []:
        m = re.match(r'D(\d+):\[(.*)\]$', item)
        if m:
            body = ' ' + m.group(2)
            res.append((int(m.group(1)), re.search(r' raw=(\S*)', body).group(1), re.search(r' w=(\S*)', body).group(1)))
    return res


def show_wrapper(line, fields):
    y, mo, d, h, mi, s, ms, country, region, pss, online = fields
    return '%s/%d,%d,%d,%d,%d,%d,%d/%s/%s/%s/%d' % (line.hex(), y, mo, d, h, mi, s, ms * 1000, country.hex() or '-',
                                                   region.hex() or '-', pss.hex() or '-', online)


class Prop:
    lean_files = ['PyaisVerif/Properties/C18.lean']
    rule = ('line sequences mixing valid wrapper lines, wrapper lines with invalid calendar dates / bad fields, single '
            'messages and interleaved multi-part messages (seeded; every position pattern of wrapper vs delivery for '
            'short sequences), through IterMessages, ByteStream and NMEAQueue; the wrapper of every delivered message '
            'is compared with the Lean model and with the property (the latest valid wrapper since the previous '
            'delivery, else none; fields = those of the wrapper line); non-trivial = a wrapper was attached ; twin wrappers (same fields, other text), wrapper tags in other letter case, readers consumed in two steps / over a polled source')
    assumptions = []
    last_valid = None

    def wrapper(self, rng, valid=True, second=None):
        """`second`: (y, mo, d, h, mi, s) shared by several wrappers of one sequence - real feeds repeat the same
        second with different milliseconds"""
        if valid:
            f = (rng.randint(1, 9999), rng.randint(1, 12), rng.randint(1, 28), rng.randint(0, 23), rng.randint(0, 59),
                 rng.randint(0, 59), rng.choice([0, 1, 999, rng.randint(0, 999)]), b'%d' % rng.randint(200, 799),
                 b'%d' % rng.randint(1, 10 ** 9), b'%d' % rng.randint(1, 10 ** 9), rng.randint(0, 1))
            if rng.random() < 0.2:
                f = (rng.choice([2020, 2024, 2000, 1600]), 2, 29) + f[3:]
            if second is not None and rng.random() < 0.6:
                f = second + f[6:]
            cc = b'6D'
            if self.last_valid is not None and rng.random() < 0.25:
                # a twin of the previous wrapper: the same time stamp and station fields, but another line (the
                # check field of the wrapped sentence differs) - "the latest one is used"
                f = self.last_valid
                cc = rng.choice([b'00', b'7F', b'6d', b'1', b''])
            self.last_valid = f
            # (the sentence type is recognised whatever its letter case)
            tag = rng.choice([b'PGHP'] * 6 + [b'pghp', b'PGhp', b'pGHP'])
            return gen.gatehouse(*f[:7], country=f[7], region=f[8], pss=f[9], online=b'%d' % f[10], cc=cc, tag=tag), f
        if second is not None and rng.random() < 0.4:
            # invalid milliseconds in a second that valid wrappers of the same sequence use as well
            y, mo, d, h, mi, sec = second
            return gen.gatehouse(y, mo, d, h, mi, sec, rng.choice([1000, 5000, -1])), None
        bad = rng.choice(['feb30', 'month13', 'hour24', 'ms1000', 'neg', 'year0', 'feb29', 'alpha', 'short'])
        kw = {'feb30': dict(mo=2, d=30), 'month13': dict(mo=13), 'hour24': dict(h=24), 'ms1000': dict(ms=1000),
              'neg': dict(d=-1), 'year0': dict(y=0), 'feb29': dict(y=2021, mo=2, d=29), 'alpha': {}, 'short': {}}[bad]
        line = gen.gatehouse(**kw)
        if bad == 'alpha':
            line = line.replace(b',2020,', b',20x0,')
        if bad == 'short':
            line = b'$PGHP,1,2020,1,2*00'
        return line, None

    def run(self, ctx):
        rng = ctx.rng('c18')
        cases = []
        for _ in range(1500 if ctx.tier == 'quick' else 80000):
            parts, seq_no = [], 0
            self.last_valid = None
            second = (rng.randint(1, 9999), rng.randint(1, 12), rng.randint(1, 28), rng.randint(0, 23),
                      rng.randint(0, 59), rng.randint(0, 59)) if rng.random() < 0.5 else None
            for _ in range(rng.randint(2, 8)):
                r = rng.random()
                if r < 0.35:
                    w = self.wrapper(rng, True, second)
                    q = rng.random()
                    if q < 0.15:
                        # a wrapper line may carry a tag block like any sentence - also one without checksum
                        w = (gen.tag_block(b's:gh%d,c:%d' % (rng.randint(0, 9), rng.randint(1, 10 ** 9))) + w[0], w[1], w[0])
                    elif q < 0.3:
                        w = (rng.choice([b'\\s:x,c:123\\', b'\\*\\', b'\\s:y*ZZ\\']) + w[0], w[1], w[0])
                    parts.append([('w',) + w])
                elif r < 0.5:
                    parts.append([('x',) + self.wrapper(rng, False, second)])
                elif r < 0.7:
                    parts.append([('s', gen.render(gen.payload_bits(rng, 'MessageType1'), chan=rng.choice('AB'))[0], None)])
                elif r < 0.8:
                    # a complete one-sentence message that carries a sequence id (1 of 1): delivered at once
                    seq_no += 1
                    parts.append([('m%d' % seq_no, gen.render(gen.payload_bits(rng, 'MessageType18'), seq=str(rng.randint(0, 9)),
                                                             chan='B')[0], 1)])
                else:
                    n = rng.randint(2, 3)
                    bits = gen.payload_bits(rng, 'MessageType8', length=rng.randint(100, 500))
                    payload, _ = gen.armor(bits)
                    cuts = sorted(rng.sample(range(1, len(payload)), n - 1))
                    seq_no += 1
                    lines = gen.render(bits, seq=str(seq_no % 10), chan='A', cuts=cuts)
                    rng.shuffle(lines)
                    parts.append([('m%d' % seq_no, l, n) for l in lines])
            cases.append(gen.random_interleaving(rng, parts) if rng.random() < 0.6 else [x for p in parts for x in p])
        # very many incomplete messages in flight (every one in its own slot) when a wrapper and then its message
        # arrive: the wrapper waits for the next delivery, however crowded the reassembly buffer is
        for count in ((1023, 1024, 1025, 2048) if ctx.tier == 'quick' else (1, 255, 256, 1023, 1024, 1025, 2047, 2048, 2049, 3072)):
            case = []
            for j in range(count):
                case.append(('d%d' % j, gen.sentence('AIVDM', 2, 1, str(j), 'AB'[j % 2], '55P5TL01VIaAL@7WKO@mBplU@<PDhh', 0), 2))
            w = self.wrapper(rng, True, None)
            case.append(('w',) + w)
            case.append(('d%d' % count, gen.sentence('AIVDM', 2, 1, str(count), 'A', '55P5TL01VIaAL@7WKO@mBplU@<PDhh', 0), 2))
            case.append(('s', gen.render(gen.payload_bits(rng, 'MessageType1'), chan='B')[0], None))
            cases.insert(0, case)
        for fe in ('iter', 'bytestream', 'queue', 'iter+tbq', 'queue+tbq', 'bytestream+tbq', 'socket'):
            if fe == 'socket':
                # the same lines through the socket front-end, cut into random pieces (a line may arrive in
                # three or more of them)
                ops = []
                for case in cases[::3]:
                    stream = b''.join(l[1] + b'\r\n' for l in case)
                    k = rng.choice([0, 2, 7, 25, len(stream) // 9 + 1])
                    cuts = sorted(set(rng.sample(range(1, len(stream)), min(k, len(stream) - 1))))
                    pts = [0] + cuts + [len(stream)]
                    ops.append('socket 0 ' + ' '.join(stream[a:b].hex() for a, b in zip(pts, pts[1:])))
                sub = cases[::3]
            else:
                sub = cases if '+' not in fe else cases[::2]
                ops = ['stream %s %d %s' % (fe.split('+')[0], 1 if '+' in fe else 0, ' '.join(impl.hx(l[1]) for l in case))
                       for case in sub]
            outs = ctx.corr(ops, impl.step, 'stream-' + fe, nontrivial=lambda l, o: ' w=24' in o)
            cases_fe = sub
            for case, o in zip(cases_fe, outs):
                pending, exp, seen = None, [], {}
                bare = {x[1]: x[3] for x in case if len(x) > 3}
                for i, (kind, line, extra, *_) in enumerate(case):
                    if kind == 'w':
                        pending = show_wrapper(bare.get(line, line), extra)
                    elif kind == 'x':
                        pass
                    elif kind == 's':
                        exp.append((i, pending or 'N'))
                        pending = None
                    else:
                        seen[kind] = seen.get(kind, 0) + 1
                        if seen[kind] == extra:
                            exp.append((i, pending or 'N'))
                            pending = None
                got = [(i, w) for i, _, w in parse_out(o)]
                if fe == 'socket':
                    got, exp = [(0, w) for _, w in got], [(0, w) for _, w in exp]     # no positions through a socket
                if got != exp:
                    ctx.fail('wrapper attachment differs from "the latest valid wrapper since the previous delivery, '
                             'attached to the next delivered message only"',
                             {'frontend': fe, 'lines': [impl.hx(l[1]) for l in case]},
                             [(i, w[:20]) for i, w in exp], [(i, w[:20]) for i, w in got],
                             {'kind': 'wrapper', 'frontend': fe})


PROP = Prop()
