"""C14 — tracker property (shares the tracker histories with C12–C15; reports only its own failures)."""
from .. import tracker_cases


class Prop:
    lean_files = ['PyaisVerif/Properties/C14.lean']
    rule = ('ALL tracker histories of 3 operations over {update(2 vessels x 2 message types x 3 timestamps), '
            'pop_track, cleanup, clock jumps} x {ordered, unordered} x TTL {None, 2} (exhaustive; length 4 sampled in '
            'the thorough tier), each followed by n_latest_tracks queries, plus long seeded random histories over 6 '
            'vessels and 11 message types with default timestamps under a controlled clock, TTL changes and exact '
            'age = TTL ties; callbacks registered for all three events; after every operation the implementation is '
            'compared with the Lean model (state in dict order, verdict, events) and with an independent abstract '
            'tracker written from the property text; non-trivial = at least one accepted update ; realistic epochs and mixed time-stamp magnitudes; histories counted in quarter seconds (sub-second stamps); directed expiry histories (vessels inserted out of time order, one disturbance, then the clock at every TTL boundary +-1); get_track; MMSI given as int and str; a one-for-all observer and an observer that unsubscribes / subscribes (twice) during the history, its calls compared with the model of the event broker; histories with a subscriber that acts on the tracker or raises from inside its callback (implementation only): n_latest_tracks against the tracks shown, after every operation; copies of the tracker')
    assumptions = ['times are integers or multiples of 1/4 s (exact in IEEE arithmetic); sub-ulp rounding differences between '
                   '(t - ttl) < oldest and (t - lu) < ttl are not exhibitable by the model',
                   'the order of DELETED events within one cleanup is unspecified (Python set) and canonicalised']

    def run(self, ctx):
        tracker_cases.run_tracker_checks(ctx, 'C14')
        tracker_cases.run_reentrant_checks(ctx, 'C14')

    def replay(self, ctx, payload):
        if 'reentrant_op' in payload['failure']['input']:
            return tracker_cases.replay_reentrant(ctx, 'C14', payload)
        return tracker_cases.replay_history(ctx, 'C14', payload)


PROP = Prop()
