"""C05 — malformed input never escapes the documented error contract."""
import re

from .. import common, gen, impl, nmea_cases

LIB = {'InvalidNMEAMessageException', 'InvalidNMEAChecksum', 'UnknownMessageException',
       'MissingMultipartMessageException', 'TooManyMessagesException', 'UnknownPartNoException',
       'InvalidDataTypeException', 'NonPrintableCharacterException', 'MissingPayloadException'}


def deliveries(out):
    """[(raw, payload, bits, valid)] of the delivered sentences, in order"""
    res = []
    for item in out.split(' ; ') if out != '-' else []:
        m = re.match(r'D\d+:\[(.*)\]$', item)
        if m:
            body = m.group(1)
            f = lambda k: re.search(r'(?:^| )%s=(\S*)' % k, body).group(1)
            res.append((f('raw'), f('pl'), f('bits'), f('valid')))
    return res


def slot_of(parse_out):
    if parse_out.startswith('ERR') or ' ais=1 ' not in parse_out:
        return None
    f = lambda k: re.search(r' %s=(\S*)' % k, parse_out).group(1)
    seq = f('seq')
    single = seq in ('N', '0') and f('fc') == '1' and f('fn') == '1'
    return None if single else (seq, f('ch'))


class Prop:
    lean_files = ['PyaisVerif/Properties/C05.lean']
    rule = ('every comma field AND every sub-field (fill-bit part, checksum part, delimiter, talker, type, tag-block '
            'key/value/group members/checksum, Gatehouse fields) of 6 kinds of valid lines x a 44-token set (empty, '
            'negative, zero, huge, underscores, signs, blanks, 0x, non-numeric, non-ASCII, separators, NUL), every '
            'truncation, byte flips (quick: 4 seeded values per position; thorough: all 256), insertions; each '
            'mutated line through decode() (message or library exception), and embedded in a line sequence with '
            'valid single and multi-part messages through IterMessages, ByteStream and NMEAQueue with and without a '
            'TagBlockQueue (no exception; bystander messages delivered unchanged); compared with the Lean model '
            '(exception class / deliveries); non-trivial = the mutated line is rejected or changes a field ; payload lengths and fragment counts / numbers at, below and above the parser\'s limits; very short lines always embedded')
    assumptions = ['lines longer than 4096 bytes / int() digit limits / MemoryError are outside the modelled domain']

    def run(self, ctx):
        rng = ctx.rng('c05')
        base = nmea_cases.base_sentences(rng)
        victims = [('single', base['single']), ('frag1', base['two'][0]), ('frag2', base['two'][1]),
                   ('wrapper', base['wrapper']), ('tagged', base['tagged']), ('group1', base['group'][0]),
                   # lines whose *decoding* fails after parsing: empty payload, unsupported type, bad part number
                   ('nopayload', gen.sentence('AIVDM', 1, 1, '', 'A', '', 0)),
                   ('unknown-type', gen.sentence('AIVDM', 1, 1, '', 'B', 't0000000', 0)),
                   ('partno3', gen.render(gen.bits_of_int(24, 6) + '0' * 32 + '11' + '0' * 128)[0])]
        muts = []
        for name, line in victims:
            for label, m in nmea_cases.malformed_lines(rng, line, ctx.tier):
                if b'\n' in m.strip(b'\r\n') and False:
                    continue
                muts.append((name, label, m))
        # tag blocks that are all punctuation (nothing in front of the checksum, a lone separator)
        for tb in (b'\\*00\\', b'\\*\\', b'\\*zz\\', b'\\,*2C\\', b'\\:*3A\\', b'\\*00*00\\', b'\\\\'):
            muts.append(('single', 'tagblock-%s' % tb.hex(), tb + base['single']))
            muts.append(('frag1', 'tagblock-%s' % tb.hex(), tb + base['two'][0]))
        # tag blocks whose fields carry numbers no clock / counter / float can hold (a reader that interprets a field
        # must survive what it reads): always embedded, with a correct tag block checksum
        extremes = [b'99999999999999999999', b'-99999999999', b'1e999', b'inf', b'-inf', b'nan', b'infinity', b'1e400',
                    b'1' * 40, b'0.0000000001', b'-0', b'1671533231.5', b'1671533231000', b'253402300800',
                    b'-62135596801', b'1_000', b'\xd9\xa1\xd9\xa2', b'1e-400', b'0x10', b'9' * 3000]
        for key in (b'c', b'n', b'r', b'd', b's', b't', b'i', b'x'):
            for v in extremes:
                if len(v) > 100 and key != b'c':
                    continue
                tb = gen.tag_block(b's:station1,' + key + b':' + v if key != b's' else b's:' + v + b',c:1671533231')
                muts.append(('single', 'tagblock-val-%s-%s' % (key.decode(), v[:12].hex()), tb + base['single']))
        for v in extremes[:12] + [b'0', b'-1', b'256']:
            for k in range(3):
                g = [b'1', b'2', b'77']
                g[k] = v
                muts.append(('frag1', 'tagblock-grp%d-%s' % (k, v[:12].hex()),
                             gen.tag_block(b'g:' + b'-'.join(g) + b',s:x') + base['two'][0]))
        # limits of the parser: payload length and fragment count / number right at, below and above the bounds
        long_bits = gen.payload_bits(rng, 'MessageType8', length=1008) * 2
        for n in (198, 199, 200, 201, 202, 255, 256, 1000):
            pl = gen.armor(long_bits)[0]
            pl = (pl * (n // len(pl) + 1))[:n]
            muts.append(('single', 'payload-len-%d' % n, gen.sentence('AIVDM', 1, 1, '', 'A', pl, 0)))
            muts.append(('frag1', 'payload-len-%d' % n, gen.sentence('AIVDM', 2, 1, '3', 'A', pl, 0)))
            muts.append(('frag2', 'payload-len-%d' % n, gen.sentence('AIVDM', 2, 2, '3', 'A', pl, 0)))
        for cnt, num in ((99, 1), (100, 1), (101, 1), (100, 100), (100, 101), (101, 101), (255, 255), (256, 1), (9, 10)):
            muts.append(('frag1', 'frag-%d-of-%d' % (num, cnt), gen.sentence('AIVDM', cnt, num, '3', 'A', '55P5TL01VIaAL@7W', 0)))
        # de-duplicate
        seen, uniq = set(), []
        for name, label, m in muts:
            if m not in seen:
                seen.add(m)
                uniq.append((name, label, m))
        muts = uniq
        ctx.dist['mutated_lines'] = len(muts)
        # (a) decode(): a message or a library exception
        ops = ['decode 0 %s' % impl.hx(m) for _, _, m in muts] + ['decode 1 %s' % impl.hx(m) for _, _, m in muts[::3]]
        outs = ctx.corr(ops, impl.step, 'decode', nontrivial=lambda l, o: o.startswith('ERR'))
        for op, o in zip(ops, outs):
            if o.startswith('ERR:'):
                ctx.count('decode:' + o[4:])
                if o[4:] not in LIB:
                    ctx.fail('decode() raised an exception outside the library hierarchy',
                             {'cmd': op.split()[0] + ' ' + op.split()[1], 'line': op.split()[2]}, 'AISBaseException', o,
                             {'kind': 'decode-escape', 'exc': o[4:]})
        # (a2) truncated payloads: every bit length of a payload of every type (fill bits 0..5 follow from
        # the length), also lengths that end right in front of / inside the variant discriminator bits
        ops = []
        for t in list(range(0, 29)) + [31, 63]:
            full = 6 + rng.choice([162, 162, 300, 420])
            bits = gen.bits_of_int(t, 6) + ''.join(rng.choice('01') for _ in range(full - 6))
            for variant in range(3 if t in (22, 24, 25, 26) else 1):
                b = list(bits)
                if t in (24, 25, 26):
                    b[38], b[39] = '01'[variant & 1], '01'[variant >> 1]
                if t == 22:
                    b[139] = '01'[variant & 1]
                b = ''.join(b)
                for L in range(0, min(len(b), 200) + 1):
                    ops.append('decode 0 %s' % impl.hx(gen.render(b[:L])[0] if L else gen.sentence('AIVDM', 1, 1, '', 'A', '', 0)))
        outs = ctx.corr(ops, impl.step, 'decode-prefix', nontrivial=lambda l, o: not o.startswith('ERR'))
        for op, o in zip(ops, outs):
            if o.startswith('ERR:') and o[4:] not in LIB:
                ctx.fail('decode() of a truncated payload raised an exception outside the library hierarchy',
                         {'cmd': 'decode 0', 'line': op.split()[2]}, 'AISBaseException', o,
                         {'kind': 'decode-escape', 'exc': o[4:]})
        # (b) readers: never raise; bystanders unchanged
        other_single = gen.render(gen.payload_bits(rng, 'MessageType18'), chan='A')[0]
        three = base['three']
        frame = lambda m: [base['single'], three[0], m, other_single, three[2], base['tagged'], three[1], base['group'][0],
                           base['group'][1]]
        # second frame: the bystanders are a two-part message with sequence id 0 and one without sequence id on
        # the channel of the mutated fragments (sequence id 0, "no sequence id" and the mutated line's own id are
        # three different reassembly slots)
        zero = gen.render(gen.payload_bits(rng, 'MessageType5'), seq='0', cuts=[33])
        noseq = gen.render(gen.payload_bits(rng, 'MessageType5'), seq='', chan='B', cuts=[21])
        frame_a = frame
        frame_b = lambda m: [zero[0], noseq[0], m, other_single, zero[1], base['single'], noseq[1]]
        step = 1 if ctx.tier == 'thorough' else 4
        # (very short lines - empty, blanks, a lone delimiter - are always among the embedded ones)
        short = [x for x in muts if len(x[2]) <= 12 or x[1].startswith(('tagblock-', 'payload-len-', 'frag-', 'noise'))]
        # third / fourth frame: the mutated fragment next to its own partner (one reassembly slot holds a sentence that
        # says "1 of 3" or "2 of 9" and an intact "2 of 2" / "1 of 2"): whatever is made of the pair, no reader raises and
        # the messages in other slots arrive
        frame_c1 = lambda m: [base['single'], m, base['two'][1], other_single, three[0], three[1], three[2]]
        frame_c2 = lambda m: [base['single'], base['two'][0], m, other_single, three[0], three[1], three[2]]
        for frame, sub in ((frame_a, muts[::step] + [x for x in short if x not in muts[::step]]), (frame_b, [x for x in muts if x[0] in ('frag1', 'frag2')][::max(1, step // 2)]),
                           (frame_c1, [x for x in muts if x[0] == 'frag1' and x[1].startswith(('sub[', 'frag-'))][::max(1, step // 2)]),
                           (frame_c2, [x for x in muts if x[0] == 'frag2' and x[1].startswith('sub[')][::max(1, step // 2)] +
                                      [x for x in muts if x[1].startswith('frag-')])):
          clean = [l for l in frame(None) if l is not None]
          # reassembly slot of every mutated line / of the first fragment of every delivery: computed once
          mslots = dict(zip([m for _, _, m in sub],
                            [slot_of(o) for o in common.pmap(impl.step, ['parse ' + impl.hx(m) for _, _, m in sub])]))
          dslots = {}
          ref = {}
          for fe in ('iter', 'bytestream', 'queue'):
            for tbq in (0, 1):
                ref[(fe, tbq)] = impl.step('stream %s %d %s' % (fe, tbq, ' '.join(impl.hx(l) for l in clean)))
          for fe in ('iter', 'bytestream', 'queue'):
            for tbq in (0, 1):
                ops = ['stream %s %d %s' % (fe, tbq, ' '.join(impl.hx(l) for l in frame(m))) for _, _, m in sub]
                outs = ctx.corr(ops, impl.step, 'stream-%s-tbq%d' % (fe, tbq),
                                nontrivial=lambda l, o: True)
                refd = deliveries(ref[(fe, tbq)])
                for (name, label, m), o in zip(sub, outs):
                    inp = {'cmd': 'stream', 'frontend': fe, 'tbq': tbq, 'mutated': m.hex(), 'case': '%s/%s' % (name, label)}
                    if 'CRASH' in o:
                        ctx.fail('a reader raised on a malformed line', inp, 'no exception', o[o.index('CRASH'):],
                                 {'kind': 'reader-crash', 'exc': o[o.index('CRASH') + 6:], 'frontend': fe})
                        continue
                    # bystanders: every message of the clean frame whose slot the mutated line does not share
                    ms = mslots[m]
                    got = deliveries(o)
                    for d in refd:
                        if d[0] not in dslots:
                            raw = bytes.fromhex(d[0])
                            dslots[d[0]] = slot_of(impl.step('parse ' + raw.split(b'\n')[0].hex())) if b'\n' in raw else None
                        if ms is not None and dslots[d[0]] == ms:
                            continue          # the mutated line occupies the same reassembly slot
                        if d not in got:
                            ctx.fail('a well-formed message was lost or altered by an unrelated malformed line', inp,
                                     d[1][:40], [g[1][:20] for g in got], {'kind': 'bystander', 'frontend': fe})
                            break

        # (c) many well-formed messages in flight at once (more slots than the sequence ids 0-9 on two channels give),
        # a malformed line in their middle: every message in another slot is delivered
        seqs = [''] + [str(i) for i in range(11)]
        slots = [(s_, c) for c in ['A', 'B', '1', '2', ''] for s_ in seqs]
        for n in (34, len(slots)):
            msgs = []
            for seq, chan in slots[:n]:
                bits = gen.payload_bits(rng, 'MessageType5')
                msgs.append((seq, chan, gen.render(bits, seq=seq, chan=chan, cuts=[rng.randint(5, 60)])))
            some = [x for x in muts if x[0] in ('frag1', 'single')][:: max(1, len(muts) // 12)][:12]
            ops, meta = [], []
            for name, label, m in some:
                lines = [f[0] for _, _, f in msgs] + [m] + [f[1] for _, _, f in msgs]
                for fe in ('iter', 'bytestream', 'queue'):
                    ops.append('stream %s 0 %s' % (fe, ' '.join(impl.hx(l) for l in lines)))
                    meta.append((fe, m, name, label))
            outs = ctx.corr(ops, impl.step, 'stream-many-slots')
            pslots = {m: slot_of(impl.step('parse ' + impl.hx(m))) for _, m, _, _ in meta}
            for (fe, m, name, label), o in zip(meta, outs):
                inp = {'cmd': 'stream', 'frontend': fe, 'tbq': 0, 'mutated': m.hex(), 'case': '%s/%s many-slots=%d' % (name, label, n)}
                if 'CRASH' in o:
                    ctx.fail('a reader raised on a malformed line', inp, 'no exception', o[o.index('CRASH'):],
                             {'kind': 'reader-crash', 'exc': o[o.index('CRASH') + 6:], 'frontend': fe})
                    continue
                got = {d[0] for d in deliveries(o)}
                ms = pslots[m]
                lost = [(seq, chan) for seq, chan, f in msgs
                        if (b'\n'.join(f)).hex() not in got and not (ms is not None and ms == ((seq or 'N'), impl.hx(chan.encode())))]
                if lost:
                    ctx.fail('a well-formed message was lost or altered by an unrelated malformed line', inp,
                             '%d messages delivered' % n, 'missing: %s' % lost[:5], {'kind': 'bystander', 'frontend': fe})

        # (d) a file of more than a mebibyte in which a line ends exactly on the 2**20 byte boundary (readers that fetch
        # the file in blocks), a few malformed lines sprinkled in: every intact message is delivered, in order
        import tempfile
        sents = []
        for k in range(7):
            b8 = gen.payload_bits(rng, 'MessageType8', length=264)
            sents.append(gen.sentence('AIVDM', 1, 1, '', 'AB'[k % 2], gen.armor(b8)[0], 0))
        assert all(len(x) == 63 for x in sents)
        lines = [sents[i % 7] for i in range(16390)]
        for pos, bad in ((5, b'!AIVDM,' + b'x' * 56), (100, b'$' + b'G' * 62), (9000, b'\\' + b's' * 62)):
            lines[pos] = bad
        with tempfile.NamedTemporaryFile(suffix='.nmea') as f:
            f.write(b''.join(l + b'\n' for l in lines))
            f.flush()
            for name, mk in (('FileReaderStream', lambda: impl.ST.FileReaderStream(f.name)),
                             ('BinaryIOStream', lambda: impl.ST.BinaryIOStream(open(f.name, 'rb')))):
                ctx.evaluations += 1
                ctx.count('megabyte_file:' + name)
                try:
                    got = [bytes(m.raw) for m in mk()]
                except Exception as e:  # noqa
                    got = impl.err(e)
                exp = [l for i, l in enumerate(lines) if i not in (5, 100, 9000)]
                if got != exp:
                    first = next((i for i, (a, b) in enumerate(zip(got, exp)) if a != b), min(len(got), len(exp))) \
                        if isinstance(got, list) else -1
                    ctx.fail('a reader over a large file loses or alters intact messages', {'cmd': 'megabyte-file', 'reader': name},
                             '%d messages' % len(exp), got if isinstance(got, str) else
                             '%d messages, first difference at #%d' % (len(got), first), {'kind': 'bystander', 'frontend': name})

        # (e) the socket readers and a malformed line that is far too long (a binary blob, a log record, a sentence that
        # lost its line ending): spread over several packets, its line ending the last byte of a packet, every later
        # sentence in a packet of its own (UDP, line-buffered TCP) - and the same bytes in other segmentations.  Every
        # intact message around it is delivered, by every socket reader, exactly as without the malformed line.
        valid = [base['single'], other_single] + base['two'] + [gen.render(gen.payload_bits(rng, 'MessageType18'), chan='B')[0]
                                                                 for _ in range(4)]
        clean_chunks = [l + b'\n' for l in valid]
        ref = impl.step('socket 0 ' + ' '.join(impl.hx(c) for c in clean_chunks))
        refd = deliveries(ref)
        n_socket = 0
        for n in (300, 1000, 1024, 1025, 1500, 2500, 4000, 4097, 8193, 20000):
            for head in (b'', b'!AIVDM,1,1,,A,', b'$PXYZ,', b'\\s:x,'):
                filler = bytes(rng.choice(b'0123456789ABCDEFGHIJKLMNOPQRSTUVWabcdefghijklmnopqrstuvw,.;') for _ in range(n - len(head)))
                bad = head + filler
                for term in (b'\n', b'\r\n'):
                    for piece in (700, 1000, 4096):
                        pieces = [bad[i:i + piece] for i in range(0, len(bad), piece)]
                        layouts = [
                            # the line ending is the last byte of the packet that completes the over-long line
                            [valid[0] + b'\n'] + pieces[:-1] + [pieces[-1] + term] + [l + b'\n' for l in valid[1:]],
                            # the line ending travels with the first bytes of the next sentence
                            [valid[0] + b'\n'] + pieces + [term + valid[1] + b'\n'] + [l + b'\n' for l in valid[2:]],
                            # ... or in a packet of its own
                            [valid[0] + b'\n'] + pieces + [term] + [l + b'\n' for l in valid[1:]],
                        ]
                        for chunks in layouts:
                            chunks = [c for c in chunks if c]
                            o = impl.step('socket 0 ' + ' '.join(impl.hx(c) for c in chunks))
                            n_socket += 1
                            inp = {'cmd': 'socket', 'tbq': 0, 'chunks': [c.hex() if len(c) < 200 else '%d bytes' % len(c) for c in chunks],
                                   'case': 'over-long line of %d bytes (%r…) in pieces of %d' % (n, head, piece)}
                            if 'CRASH' in o or o.startswith('READERS-DIFFER'):
                                ctx.fail('a socket reader raised on / the socket readers disagree about an over-long malformed line',
                                         inp, 'no exception', o[:200], {'kind': 'reader-crash', 'frontend': 'socket'})
                                continue
                            got = deliveries(o)
                            missing = [d for d in refd if d not in got]
                            if missing:
                                ctx.fail('a well-formed message was lost or altered by an unrelated malformed line', inp,
                                         '%d messages' % len(refd), '%d delivered, missing e.g. %s' % (len(got), missing[0][1][:30]),
                                         {'kind': 'bystander', 'frontend': 'socket'})
                                break
        ctx.evaluations += n_socket
        ctx.corr_commands['socket over-long lines (oracle only)'] = n_socket

    def replay(self, ctx, payload):
        inp = payload['failure']['input']
        if inp['cmd'].startswith('decode'):
            o = impl.step('%s %s' % (inp['cmd'], inp['line']))
            print('observed:', o)
            return not (o.startswith('ERR:') and o[4:] not in LIB)
        return None       # reader cases: regenerated from the recorded seed by the generic replay


PROP = Prop()
