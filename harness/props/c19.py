"""C19 — a filter chain passes exactly the messages that satisfy every filter."""
import itertools
import math
from decimal import Decimal
from fractions import Fraction

import pyais

from .. import common, gen, impl

POS_CLASSES = ['MessageType1', 'MessageType4', 'MessageType9', 'MessageType18', 'MessageType19', 'MessageType21',
               'MessageType27', 'MessageType17']
OTHER = ['MessageType5', 'MessageType8', 'MessageType14', 'MessageType24PartA', 'MessageType10', 'MessageType20']
UNIT = 1953125          # thresholds are multiples of 1/512 km (exact doubles), in nano-km


def great_circle_km(lat1, lon1, lat2, lon2):
    """independent of pyais.filter.haversine: Vincenty's special-case (atan2) formula on a sphere"""
    p1, l1, p2, l2 = map(math.radians, (lat1, lon1, lat2, lon2))
    dl = l2 - l1
    y = math.hypot(math.cos(p2) * math.sin(dl), math.cos(p1) * math.sin(p2) - math.sin(p1) * math.cos(p2) * math.cos(dl))
    x = math.sin(p1) * math.sin(p2) + math.cos(p1) * math.cos(p2) * math.cos(dl)
    return 6371.0 * math.atan2(y, x)


def micro(v):
    return int(Decimal(repr(float(v))) * 1000000)


class _Snap:
    """what a decoded message carries, as plain attributes (the oracle does not ask the library's object for
    attributes it may not have - how the object answers such a question is part of what is being checked)"""

    def __init__(self, m):
        self.__dict__.update(m.asdict())


class Prop:
    lean_files = ['PyaisVerif/Properties/C19.lean']
    rule = ('decoded messages of position and non-position types, including truncated position reports whose lat/lon '
            'is None and positions placed exactly on grid corners / on the reference point; chains of 1–5 filters '
            '(attribute predicate, NoneFilter, MessageTypeFilter, DistanceFilter, GridFilter) in all orders (quick: '
            'all permutations of chains up to 3, sampled beyond); the implementation is compared with the Lean chain '
            'model (distances supplied from pyais.haversine as exact rationals) and with an independent evaluation '
            '"passes iff every filter is satisfied" that uses an independent great-circle formula (cases within '
            '1e-9 relative of the threshold are skipped); non-trivial = the chain dropped some and kept some ; message id 0 and type sets over 0..63; circles that miss / include a position by 0.2 m; the chain over real sentence objects, over a second stream, and one reader filtered three times')
    assumptions = ['numerical accuracy of haversine (libm sin/cos/asin/sqrt) is differential testing against an '
                   'independent formula, not proof: the chain logic is proved for every distance function']

    def messages(self, rng, n, zone='normal'):
        msgs = []
        for _ in range(n):
            c = rng.choice(POS_CLASSES + OTHER)
            if c in POS_CLASSES and rng.random() < 0.25:
                cls = gen.concrete_classes()[c]
                offs = {name: off for name, off, *_ in gen.field_offsets(cls)}
                cut = rng.choice([offs.get('lon', 60), offs.get('lat', 90), offs.get('lat', 90) + 5, 40])
                bits = gen.payload_bits(rng, c, length=max(40, cut))
            elif c in POS_CLASSES and c != 'MessageType17':
                # plausible coordinates so that the geographic filters keep some
                cls = gen.concrete_classes()[c]
                ov = {}
                for name, off, w, d_type, signed, varlen in gen.field_offsets(cls):
                    if name == 'lon':
                        scale = 600000 if w == 28 else 600
                        lon = rng.uniform(-30, 30)
                        if zone == 'antimeridian':     # both sides of the 180 degree meridian
                            lon = rng.choice([-1, 1]) * (180 - rng.choice([0.0, 0.01, 0.1, rng.uniform(0, 0.6)]))
                        elif zone == 'polar':
                            lon = rng.uniform(-180, 180)
                        elif rng.random() < 0.15:
                            lon = 0.0                  # exactly on the Greenwich meridian
                        ov[off] = gen.bits_of_int(int(lon * scale), w)
                    if name == 'lat':
                        scale = 600000 if w == 27 else 600
                        lat = rng.uniform(-30, 30)
                        if zone == 'polar':            # close to (and on) the poles
                            lat = rng.choice([-1, 1]) * (90 - rng.choice([0.0, 0.01, 0.1, rng.uniform(0, 0.6)]))
                        elif rng.random() < 0.15:
                            lat = 0.0                  # exactly on the equator
                        ov[off] = gen.bits_of_int(int(lat * scale), w)
                bits = gen.payload_bits(rng, c, overrides=ov)
            else:
                bits = gen.payload_bits(rng, c, length=rng.choice([None, 300]) if c in ('MessageType8', 'MessageType14') else None)
            if rng.random() < 0.08:
                # hardly anything received: the message type alone, or with a part of the MMSI (every field None)
                bits = bits[:rng.choice([6, 6, 8, 12, 37, 38])]
            if c == 'MessageType1' and rng.random() < 0.3:
                bits = '000000' + bits[6:]         # message id 0 is decoded like a type 1 message, with msg_type 0
            payload, _ = gen.armor(bits)
            if len(payload) > 200:
                continue
            msgs.append(gen.render(bits)[0])
        return msgs

    def filters(self, rng, decoded, zone='normal'):
        pos = [(m.lat, m.lon) for m in decoded if getattr(m, 'lat', None) is not None and getattr(m, 'lon', None) is not None]
        out = ['A:truthy:shipname', 'A:truthy:speed', 'A:truthy:status', 'A:truthy:callsign', 'A:truthy:data', 'A:truthy:turn',
               'A:always', 'A:has:speed', 'A:lt:speed:%d' % rng.choice([5000000, 20000000, 60000000]),
               'A:lt:mmsi:%d' % (500000000 * 1000000), 'N:speed', 'N:lat,lon', 'N:shipname', 'N:speed,course,heading',
               'T:1,2,3', 'T:5,8,14,24', 'T:%s' % ','.join(str(t) for t in rng.sample(range(1, 28), 6)), 'T:-',
               'T:0', 'T:0,2,3,5,18', 'T:%s' % ','.join(str(t) for t in rng.sample(range(0, 64), 12))]
        for _ in range(3):
            if pos:
                la, lo = rng.choice(pos)
                ref = (round(la + rng.uniform(-5, 5), 3), round(lo + rng.uniform(-5, 5), 3))
                if zone == 'antimeridian':
                    # a reference point on either side of the 180 degree meridian, close to it
                    ref = (round(la + rng.uniform(-0.3, 0.3), 3),
                           round(rng.choice([-1, 1]) * (180 - rng.choice([0.0, 0.05, rng.uniform(0, 0.5)])), 3))
                elif zone == 'polar':
                    ref = (round(max(-90.0, min(90.0, la + rng.uniform(-0.3, 0.3))), 3), round(rng.uniform(-180, 180), 3))
            else:
                ref = (0.0, 0.0)
            out.append('D:%d:%d:%d' % (micro(ref[0]), micro(ref[1]), rng.choice([1, 50, 512, 512 * 300, 512 * 2000, 512 * 9000]) * UNIT))
            a, b = sorted([round(rng.uniform(-40, 40), 3), round(rng.uniform(-40, 40), 3)])
            c, d = sorted([round(rng.uniform(-40, 40), 3), round(rng.uniform(-40, 40), 3)])
            out.append('G:%d:%d:%d:%d' % (micro(a), micro(c), micro(b), micro(d)))
        # boxes strictly off the equator / the Greenwich meridian (a coordinate of exactly 0.0 lies outside)
        out.append('G:%d:%d:%d:%d' % (micro(1.0), micro(-40.0), micro(40.0), micro(40.0)))
        out.append('G:%d:%d:%d:%d' % (micro(-40.0), micro(0.5), micro(40.0), micro(40.0)))
        out.append('G:%d:%d:%d:%d' % (micro(-40.0), micro(-40.0), micro(-0.001), micro(-0.001)))
        out.append('D:%d:%d:%d' % (micro(20.0), micro(20.0), 512 * 100 * UNIT))
        # boxes as wide as the map: the whole world, a pure latitude band (-180 .. 180), the two hemispheres
        out.append('G:%d:%d:%d:%d' % (micro(-90.0), micro(-180.0), micro(90.0), micro(180.0)))
        out.append('G:%d:%d:%d:%d' % (micro(-25.0), micro(-180.0), micro(25.0), micro(180.0)))
        out.append('G:%d:%d:%d:%d' % (micro(-90.0), micro(0.0), micro(90.0), micro(180.0)))
        out.append('G:%d:%d:%d:%d' % (micro(-90.0), micro(-180.0), micro(90.0), micro(0.0)))
        # circles larger than half the circumference of the earth ("no limit")
        out.append('D:%d:%d:%d' % (micro(10.0), micro(10.0), 512 * 25000 * UNIT))
        out.append('D:%d:%d:%d' % (micro(-30.0), micro(100.0), 512 * 40075 * UNIT))
        # circles that miss / include a position by a fifth of a metre (a distance rounded to metres or to three
        # decimals of a kilometre before the comparison decides these wrongly)
        for la, lo in (rng.sample(pos, min(4, len(pos))) if pos else []):
            ref = (round(la + rng.uniform(-0.2, 0.2), 3), round(lo + rng.uniform(-0.2, 0.2), 3))
            if zone == 'polar':
                ref = (round(max(-90.0, min(90.0, ref[0])), 3), ref[1])
            d = great_circle_km(ref[0], ref[1], la, lo)
            for delta in (0.0002, -0.0002):
                if d + delta > 0:
                    out.append('D:%d:%d:%d' % (micro(ref[0]), micro(ref[1]), int(round((d + delta) * 1e9))))
        # circles around the exact antipode of a position (half the globe away: the arc-sine form of the haversine is at
        # the very end of its domain there, other forms fall off it)
        for la, lo in pos:
            alo = micro(lo) - 180000000 if lo > 0 else micro(lo) + 180000000       # (exact, in micro-degrees)
            out.append('D:%d:%d:%d' % (-micro(la), alo, rng.choice([1, 512 * 20000, 512 * 25000]) * UNIT))
        if pos:
            la, lo = rng.choice(pos)
            out.append('D:%d:%d:0' % (micro(la), micro(lo)))              # strictness: distance 0 is not < 0
            out.append('D:%d:%d:%d' % (micro(la), micro(lo), UNIT))        # ... but is < 1/512 km
            out.append('G:%d:%d:%d:%d' % (micro(la), micro(lo), micro(la), micro(lo)))   # closed: the corner itself
            out.append('G:%d:%d:%d:%d' % (micro(la), micro(lo) - 3, micro(la) + 7, micro(lo)))
        return out

    def dist_table(self, fspec, decoded):
        rows = []
        for f in fspec.split('+'):
            p = f.split(':')
            if p[0] != 'D':
                continue
            ref = (float(Decimal(int(p[1])) / 1000000), float(Decimal(int(p[2])) / 1000000))
            for m in decoded:
                la, lo = getattr(m, 'lat', None), getattr(m, 'lon', None)
                if la is None or lo is None:
                    continue
                try:
                    h = impl.FL.haversine(ref, (la, lo))
                except Exception:  # noqa  (reported by the chain itself: "no decodable message makes a filter raise")
                    continue
                d = (Fraction(h) * 10 ** 9).__floor__()
                rows.append('%s,%s,%d,%d,%d' % (p[1], p[2], micro(la), micro(lo), d))
        return ';'.join(sorted(set(rows))) or '-'

    def expected(self, fspec, decoded):
        """independent evaluation; returns (list of indices, ambiguous?)"""
        keep, ambiguous = [], False
        for i, m in decoded:
            ok = True
            for f in fspec.split('+'):
                p = f.split(':')
                if p[0] == 'A':
                    ok &= bool(impl.make_pred(p[1:])(m))
                elif p[0] == 'N':
                    ok &= all(getattr(m, a, None) is not None for a in ([] if p[1] == '-' else p[1].split(',')))
                elif p[0] == 'T':
                    ok &= m.msg_type in ([] if p[1] == '-' else [int(x) for x in p[1].split(',')])
                else:
                    la, lo = getattr(m, 'lat', None), getattr(m, 'lon', None)
                    if la is None or lo is None:
                        continue
                    if p[0] == 'D':
                        km = int(p[3]) / 1e9
                        d = great_circle_km(int(p[1]) / 1e6, int(p[2]) / 1e6, la, lo)
                        if km > 0 and abs(d - km) <= 1e-9 * max(km, 1.0):
                            ambiguous = True
                        ok &= d < km
                    else:
                        a, b, c, d = [Decimal(int(x)) / 1000000 for x in p[1:5]]
                        ok &= a <= Decimal(repr(la)) <= c and b <= Decimal(repr(lo)) <= d
            if ok:
                keep.append(i)
        return keep, ambiguous

    def run(self, ctx):
        rng = ctx.rng('c19')
        # the chains run in worker processes forked NOW, before this process has decoded anything: there every
        # message is decoded for the first time right after its close relatives (see impl._siblings), while the
        # expected result is computed here from a plain decode
        common.ensure_pool()
        rounds = 6 if ctx.tier == 'quick' else 60
        for rnd in range(rounds):
            zone = ['normal', 'antimeridian', 'polar', 'normal', 'normal', 'antimeridian'][rnd % 6]
            ctx.count('zone:' + zone)
            lines = self.messages(rng, 40, zone)
            decoded = []
            for i, l in enumerate(lines):
                try:
                    decoded.append((i, _Snap(pyais.decode(l))))
                except Exception:  # noqa
                    pass
            menu = self.filters(rng, [m for _, m in decoded], zone)
            chains = []
            for k in (1, 2, 3):
                for combo in itertools.combinations(rng.sample(menu, min(len(menu), 7)), k):
                    for perm in itertools.permutations(combo):
                        chains.append('+'.join(perm))
            for k in (4, 5):
                for _ in range(25):
                    chains.append('+'.join(rng.sample(menu, k)))
            chains += menu
            ops = []
            hexes = ' '.join(l.hex() for l in lines)
            for c in chains:
                ops.append('chain %s %s %s' % (c, self.dist_table(c, [m for _, m in decoded]), hexes))
            outs = ctx.corr(ops, impl.step, 'chain', workers=True,
                            nontrivial=lambda l, o: o not in ('[]', '[' + ','.join(str(i) for i, _ in decoded) + ']')
                            and not o.startswith('ERR'))
            perm_groups = {}
            for c, o in zip(chains, outs):
                ctx.count('chain_len_%d' % (c.count('+') + 1))
                inp = {'chain': c, 'lines': [l.hex() for l in lines]}
                if o.startswith('ERR:'):
                    ctx.fail('a filter raised on a decodable message', inp, 'no exception', o, {'kind': 'raises'})
                    continue
                exp, amb = self.expected(c, decoded)
                if o.startswith('READERS-DIFFER'):
                    ctx.fail('the chain passes different messages over the sentences a reader delivers than over '
                             'other decodable elements', inp, exp, o, {'kind': 'sentences'})
                    continue
                got = [int(x) for x in o.strip('[]').split(',') if x]
                if not amb and got != exp:
                    ctx.fail('chain output differs from "exactly the messages that satisfy every filter"', inp, exp, got,
                             {'kind': 'exact', 'filters': sorted({f.split(':')[0] for f in c.split('+')})})
                key = tuple(sorted(c.split('+')))
                if key in perm_groups and perm_groups[key][1] != o:
                    ctx.fail('result depends on the order of the filters', dict(inp, other=perm_groups[key][0]),
                             perm_groups[key][1], o, {'kind': 'order'})
                perm_groups.setdefault(key, (c, o))

    def replay(self, ctx, payload):
        inp = payload['failure']['input']
        lines = [bytes.fromhex(x) for x in inp['lines']]
        decoded = []
        for i, l in enumerate(lines):
            try:
                decoded.append((i, _Snap(pyais.decode(l))))
            except Exception:  # noqa
                pass
        o = impl.step('chain %s - %s' % (inp['chain'], ' '.join(inp['lines'])))
        exp, amb = self.expected(inp['chain'], decoded)
        got = None if o.startswith(('ERR', 'READERS-DIFFER')) else [int(x) for x in o.strip('[]').split(',') if x]
        print('observed', o, 'expected', exp)
        return got == exp


PROP = Prop()
