"""C04 — the decoded message depends only on the AIS payload, not on its NMEA carrier."""
import pyais

from .. import gen, impl, nmea_cases


class Prop:
    lean_files = ['PyaisVerif/Properties/C04.lean']
    rule = ('structured payloads of all 35 layouts (nominal and variable lengths); for each, seeded carrier variations: '
            'every talker of the talker table x VDM/VDO, channels A/B/1/2/empty, sequence ids 0-9 or none, 1..5 '
            'fragments with random cut points, every hand-over order (random permutation; all permutations for <= 3 '
            'parts in a sub-sample), trailing CR/LF/blanks, leading tag blocks, str versus bytes arguments; all must '
            'decode to the same message as the plain single rendering and as from_bitarray on the bits; each call is '
            'also compared with the Lean model; non-trivial = more than one fragment or a decorated line')
    assumptions = ['str arguments are ASCII (decode() encodes them as UTF-8)']

    def run(self, ctx):
        rng = ctx.rng('c04')
        ops, meta = [], []
        per = 40 if ctx.tier == 'quick' else 2500
        for cname in sorted(gen.concrete_classes()):
            full = gen.total_width(gen.concrete_classes()[cname])
            for L in ([None] if full <= 424 else [None, rng.randint(80, full - 1), rng.randint(80, full - 1)]):
                bits = gen.payload_bits(rng, cname, length=L)
                payload, _ = gen.armor(bits)
                if len(payload) > 200 * 5:
                    continue
                ref = impl.step('frombits %s' % bits)
                for label, lines in nmea_cases.carriers(rng, bits, per):
                    ops.append('decode 0 ' + ' '.join(impl.hx(l) for l in lines))
                    meta.append((cname, bits, label, lines, ref))
                # decode(part2, part1) = decode(part1, part2)
                if len(payload) > 4:
                    two = gen.render(bits, cuts=[len(payload) // 2] if len(payload) <= 400 else list(range(150, len(payload), 150)))
                    for order in (two, two[::-1]):
                        ops.append('decode 0 ' + ' '.join(impl.hx(l) for l in order))
                        meta.append((cname, bits, 'swap' if order is not two else 'plain-cut', order, ref))
        outs = ctx.corr(ops, impl.step, 'decode', nontrivial=lambda l, o: l.count(' ') > 2 or '5c' in l[:20])
        for (cname, bits, label, lines, ref), o in zip(meta, outs):
            ctx.count('class:' + cname)
            inp = {'class': cname, 'bits': bits, 'carrier': label, 'lines': [impl.hx(l) for l in lines]}
            if o != ref:
                ctx.fail('decode() of a carrier differs from decoding the payload bits', inp, ref[:160], o[:160],
                         {'kind': 'carrier', 'class': cname, 'parts': len(lines)})
                continue
            # str arguments
            try:
                sargs = [l.decode('ascii') for l in lines]
            except UnicodeDecodeError:
                continue
            try:
                so = impl.canon_msg(pyais.decode(*sargs))
            except Exception as e:  # noqa
                so = impl.err(e)
            if so != ref:
                ctx.fail('decode() of str arguments differs from bytes arguments', inp, ref[:160], so[:160],
                         {'kind': 'str-input', 'class': cname})

    def replay(self, ctx, payload):
        inp = payload['failure']['input']
        o = impl.step('decode 0 ' + ' '.join(inp['lines']))
        ref = impl.step('frombits %s' % inp['bits'])
        print('decode :', o[:300])
        print('payload:', ref[:300])
        return o == ref


PROP = Prop()
