"""C04 — the decoded message depends only on the AIS payload, not on its NMEA carrier."""
import pyais

from .. import gen, impl, nmea_cases


class Prop:
    lean_files = ['PyaisVerif/Properties/C04.lean']
    rule = ('structured payloads of all 35 layouts (nominal and variable lengths); for each, seeded carrier variations: '
            'every talker of the talker table x VDM/VDO, channels A/B/1/2/empty, sequence ids 0-9 or none, 1..5 '
            'fragments with random cut points, every hand-over order (random permutation; all permutations for <= 3 '
            'parts in a sub-sample), trailing CR/LF/blanks, leading tag blocks, str versus bytes arguments; all must '
            'decode to the same message as the plain single rendering and as from_bitarray on the bits; each call is '
            'also compared with the Lean model; non-trivial = more than one fragment or a decorated line ; carriers with 9-15 fragments; two messages interleaved on one channel (sequence id 0 / empty / reused slot) through IterMessages, ByteStream and NMEAQueue')
    assumptions = ['str arguments are ASCII (decode() encodes them as UTF-8)']

    def run(self, ctx):
        rng = ctx.rng('c04')
        ops, meta = [], []
        per = 40 if ctx.tier == 'quick' else 2500
        for cname in sorted(gen.concrete_classes()):
            full = gen.total_width(gen.concrete_classes()[cname])
            for L in ([None] if full <= 424 else [None, rng.randint(80, full - 1), rng.randint(80, full - 1)]):
                bits = gen.payload_bits(rng, cname, length=L)
                payload, _ = gen.armor(bits)
                if len(payload) > 200 * 5:
                    continue
                ref = impl.step('frombits %s' % bits)
                for label, lines in nmea_cases.carriers(rng, bits, per):
                    ops.append('decode 0 ' + ' '.join(impl.hx(l) for l in lines))
                    meta.append((cname, bits, label, lines, ref))
                # decode(part2, part1) = decode(part1, part2)
                if len(payload) > 4:
                    two = gen.render(bits, cuts=[len(payload) // 2] if len(payload) <= 400 else list(range(150, len(payload), 150)))
                    for order in (two, two[::-1]):
                        ops.append('decode 0 ' + ' '.join(impl.hx(l) for l in order))
                        meta.append((cname, bits, 'swap' if order is not two else 'plain-cut', order, ref))
        # a complete one-sentence message that carries a sequence id, with fill bits, for the layouts that end in a
        # variable-length field (the carrier must not leak into the last field)
        for cname, cls in sorted(gen.concrete_classes().items()):
            name, off, w, d_type, signed, varlen = gen.field_offsets(cls)[-1]
            if not varlen:
                continue
            unit = 6 if d_type is str else 8
            for k in (1, 2, 3, 5, 7):
                if k * unit > w or (off + k * unit + 5) // 6 > 200:
                    continue
                bits = gen.payload_bits(rng, cname)[:off + k * unit]
                if d_type is str:
                    bits = bits[:off] + ''.join(gen.bits_of_int(rng.randint(1, 31), 6) for _ in range(k))
                ref = impl.step('frombits %s' % bits)
                for seq in ('', '0', str(rng.randint(1, 9))):
                    lines = gen.render(bits, seq=seq, chan=rng.choice('AB'))
                    ops.append('decode 0 ' + ' '.join(impl.hx(l) for l in lines))
                    meta.append((cname, bits, 'one sentence, seq=%r, fill=%d' % (seq, (6 - len(bits) % 6) % 6), lines, ref))
        outs = ctx.corr(ops, impl.step, 'decode', nontrivial=lambda l, o: l.count(' ') > 2 or '5c' in l[:20])
        for (cname, bits, label, lines, ref), o in zip(meta, outs):
            ctx.count('class:' + cname)
            inp = {'class': cname, 'bits': bits, 'carrier': label, 'lines': [impl.hx(l) for l in lines]}
            if o != ref:
                ctx.fail('decode() of a carrier differs from decoding the payload bits', inp, ref[:160], o[:160],
                         {'kind': 'carrier', 'class': cname, 'parts': len(lines)})
                continue
            # str arguments
            try:
                sargs = [l.decode('ascii') for l in lines]
            except UnicodeDecodeError:
                continue
            try:
                so = impl.canon_msg(pyais.decode(*sargs))
            except Exception as e:  # noqa
                so = impl.err(e)
            if so != ref:
                ctx.fail('decode() of str arguments differs from bytes arguments', inp, ref[:160], so[:160],
                         {'kind': 'str-input', 'class': cname})

        # the carriers of two messages interleaved on one channel - the sequence id 0 next to the empty one, a reused
        # (sequence id, channel) slot with fewer fragments - through the readers and the queue: every delivered
        # sentence carries the payload bits of its message (and so decodes to the same message)
        import re
        ops, meta = [], []
        names = sorted(gen.concrete_classes())
        for k in range(60 if ctx.tier == 'quick' else 3000):
            chan = 'AB'[k % 2]
            seqs = [('0', ''), ('', '0'), ('3', '3'), ('0', '0'), ('', '')][k % 5]
            msgs = []
            for seq, n in zip(seqs, (rng.randint(2, 4), 2)):
                cname = rng.choice(names)
                bits = gen.payload_bits(rng, cname)
                payload, _ = gen.armor(bits)
                n = min(n, len(payload))
                if len(payload) > 190 * n or n < 2:
                    bits = gen.payload_bits(rng, 'MessageType5')
                    payload, _ = gen.armor(bits)
                    n = 2
                cuts = sorted(rng.sample(range(1, len(payload)), n - 1))
                msgs.append((bits, gen.render(bits, seq=seq, chan=chan, cuts=cuts)))
            (ba, la), (bb, lb) = msgs
            if seqs[0] != seqs[1]:
                lines = gen.random_interleaving(rng, [la, lb])       # two slots: any interleaving
            else:
                lines = la + lb                                      # one slot: one after the other
            done = {}
            for i, l in enumerate(lines):
                done['a' if l in la else 'b'] = i
            order = [ba, bb] if done['a'] < done['b'] else [bb, ba]
            for fe in ('iter', 'queue', 'bytestream'):
                ops.append('stream %s 0 %s' % (fe, ' '.join(impl.hx(l) for l in lines)))
                meta.append((fe, lines, order))
        outs = ctx.corr(ops, impl.step, 'readers', nontrivial=lambda l, o: '0a21' in o)
        for (fe, lines, order), o, op in zip(meta, outs, ops):
            got = re.findall(r' bits=([01-]+) ', o + ' ')
            if got != order:
                ctx.fail('a reader delivers sentences that do not carry the payloads of the messages sent',
                         {'reader_op': op, 'frontend': fe, 'payloads': order}, [b[:24] for b in order], o[:300],
                         {'kind': 'reader-carrier', 'frontend': fe})

    def replay(self, ctx, payload):
        inp = payload['failure']['input']
        if 'reader_op' in inp:
            import re
            o = impl.step(inp['reader_op'])
            print('observed:', o[:400])
            return re.findall(r' bits=([01-]+) ', o + ' ') == inp['payloads']
        o = impl.step('decode 0 ' + ' '.join(inp['lines']))
        ref = impl.step('frombits %s' % inp['bits'])
        print('decode :', o[:300])
        print('payload:', ref[:300])
        return o == ref


PROP = Prop()
