"""C16 — tag blocks round-trip through create and parse and never alter the sentence."""
import itertools
import re

from .. import gen, impl, nmea_cases

FIELDS = ['receiver_timestamp', 'destination_station', 'line_count', 'relative_time', 'source_station', 'text', 'group']
KEY = {'receiver_timestamp': 'c', 'destination_station': 'd', 'line_count': 'n', 'relative_time': 'r',
       'source_station': 's', 'text': 't', 'group': 'g'}
VALUES = [b'x', b'STATION1', b'1671533231', b'a:b', b':', b'a b', b'', b'-', b'0', b'\xc3\xa9t\xc3\xa9', b'A' * 40,
          b'1-2-3', b'g:1', b'~!@#$%^&()', b' lead', b'trail ', b'\xe2\x82\xac',
          # a caret in front of two hex digits (NMEA 4.10 knows '^hh' escapes; what is written comes back as written)
          b'x^2Cy', b'^5E2C', b'a^5Eb', b'^', b'^^', b'^2A^0D', b'100%^41', b'%2C', b'&amp;', b'\\x41'.replace(b'\\', b'/')]


def xor(bs):
    c = 0
    for b in bs:
        c ^= b
    return c


def tb_field(out, key):
    m = re.search(r'(?:^| )%s=(\S*)' % key, out)
    return m.group(1) if m else None


class Prop:
    lean_files = ['PyaisVerif/Properties/C16.lean']
    rule = ('TagBlock.create -> TagBlock.init on every non-empty subset of the seven fields (quick: all subsets x '
            'seeded values and keyword orders; thorough: more orders/values) with separator-free values incl. values '
            'containing ":", empty values, non-ASCII UTF-8, group triples incl. large ids, contents whose checksum is '
            'below 0x10; all 255 wrong checksums and a checksum token matrix; extra unknown / colon-free / non-UTF-8 '
            'fields inserted at every position; tag blocks attached to valid and invalid sentences (sentence parsed '
            'with and without); each compared with the Lean model and with the property; non-trivial = the block '
            'initialised ; TagBlock.create_str next to create')
    assumptions = ['group members and checksum text are ASCII (int(str) also accepts non-ASCII decimal digits and '
                   'Unicode whitespace, which the model treats as outside its domain)']

    def run(self, ctx):
        rng = ctx.rng('c16')
        # 1. create -> parse round trip
        ops, meta = [], []
        subsets = [s for k in range(1, 8) for s in itertools.combinations(FIELDS, k)]
        reps = 12 if ctx.tier == 'quick' else 800
        for sub in subsets:
            for _ in range(reps):
                order = list(sub)
                rng.shuffle(order)
                kv = []
                for f in order:
                    if f == 'group':
                        v = b'%d-%d-%d' % (rng.choice([1, 2, 9, 100]), rng.choice([1, 2, 9, 100]),
                                           rng.choice([0, 7, 73874, 4294967295]))
                    else:
                        v = rng.choice(VALUES)
                    kv.append((f, v))
                ops.append('tagblock.create ' + ';'.join('%s=%s' % (f, impl.hx(v)) for f, v in kv))
                meta.append(kv)
        # contents with a one-digit checksum
        for v in range(256):
            kv = [('text', bytes([c]) if False else b'%02x' % v)]
            ops.append('tagblock.create text=%s' % impl.hx(kv[0][1]))
            meta.append(kv)
        created = ctx.corr(ops, impl.step, 'tagblock.create')
        pops = ['tagblock.parse %s' % c for c in created if not c.startswith('ERR')]
        pmeta = [kv for kv, c in zip(meta, created) if not c.startswith('ERR')]
        praw = [c for c in created if not c.startswith('ERR')]
        parsed = ctx.corr(pops, impl.step, 'tagblock.parse')
        for kv, raw, o in zip(pmeta, praw, parsed):
            inp = {'cmd': 'roundtrip', 'fields': [(f, v.hex()) for f, v in kv], 'raw': raw}
            if o.startswith('ERR'):
                ctx.fail('created tag block does not initialise', inp, 'parsed', o, {'kind': 'rt-error'})
                continue
            if tb_field(o, 'valid') != '1' or tb_field(o, 'actual') != tb_field(o, 'expected'):
                ctx.fail('created tag block is not valid / checksums differ', inp, 'valid=1', o[:120], {'kind': 'rt-valid'})
            # the checksum written by create() is the XOR of the content (computed here, not by the library)
            rawb = bytes.fromhex(raw)
            content, _, chk = rawb.rpartition(b'*')
            if rawb.count(b'*') != 1 or not re.fullmatch(rb'[0-9A-Fa-f]{1,2}', chk) or int(chk, 16) != xor(content):
                ctx.fail('the checksum of a created tag block is not the XOR of its content', inp,
                         '%X' % xor(content), chk.decode('latin-1'), {'kind': 'rt-checksum'})
            for f, v in kv:
                got = tb_field(o, KEY[f])
                exp = v.decode('latin-1') if f == 'group' else impl.hx(v)
                if f == 'group':
                    exp = '-'.join(str(int(x)) for x in v.split(b'-'))
                if got != exp:
                    ctx.fail('field does not parse back to its textual form', dict(inp, field=f), exp, got,
                             {'kind': 'rt-field', 'field': f})
            for f in FIELDS:
                if f not in [k for k, _ in kv] and tb_field(o, KEY[f]) != 'N':
                    ctx.fail('a field that was not given is not None', dict(inp, field=f), 'N', tb_field(o, KEY[f]),
                             {'kind': 'rt-absent'})
        # 1b. values that are not strings: create() renders str(value); a value that compares equal to one seen
        # before but prints differently (1, 1.0, True) must still come back as its own text (create is a
        # function of its arguments, whatever was created before) - implementation only
        typed = [(1, 1.0), (1.0, 1), (1, True), (True, 1), (0, False), (0, 0.0), (5.0, 5), (1671533231, 1671533231.0),
                 (False, 0), (2, 2)]
        for f in ('line_count', 'relative_time', 'receiver_timestamp'):
            for first, second in typed:
                ctx.evaluations += 1
                try:
                    impl.M.TagBlock.create(**{f: first})
                    raw = impl.M.TagBlock.create(**{f: second})
                    if impl.M.TagBlock.create_str(**{f: second, 'source_station': 'st'}).encode() != \
                            impl.M.TagBlock.create(**{f: second, 'source_station': 'st'}):
                        ctx.fail('TagBlock.create_str differs from TagBlock.create', {'cmd': 'typed', 'field': f,
                                 'first': repr(first), 'second': repr(second)}, 'the same tag block as str', '',
                                 {'kind': 'rt-typed', 'field': f})
                    o = impl.step('tagblock.parse ' + impl.hx(raw))
                except Exception as e:  # noqa
                    ctx.fail('TagBlock.create raised on a non-string value', {'cmd': 'typed', 'field': f,
                             'first': repr(first), 'second': repr(second)}, 'a tag block', impl.err(e), {'kind': 'rt-typed'})
                    continue
                exp = impl.hx(str(second).encode())
                if tb_field(o, KEY[f]) != exp:
                    ctx.fail('a created field does not parse back to the text of the value given',
                             {'cmd': 'typed', 'field': f, 'first': repr(first), 'second': repr(second)}, exp,
                             tb_field(o, KEY[f]), {'kind': 'rt-typed', 'field': f})
        # 2. validity flag: all checksum values and a token matrix
        content = b's:station1,c:1671533231,t:hello'
        good = xor(content)
        cases = [(content + b'*%02X' % v, v == good) for v in range(256)]
        cases += [(content + b'*%X' % v, v == good) for v in range(16)]
        for tok in [b'%02x' % good, b'+%02X' % good, b'0x%02X' % good, b' %02X' % good, b'%02X ' % good,
                    b'%X_%X' % (good >> 4, good & 15), b'0%02X' % good]:
            cases.append((content + b'*' + tok, True))
        for tok in [b'', b'G1', b'*', b'1*2', b'\xff', b'--1']:
            cases.append((content + b'*' + tok, None))
        cases.append((content, None))
        ops = ['tagblock.parse %s' % impl.hx(c) for c, _ in cases]
        outs = ctx.corr(ops, impl.step, 'tagblock.parse')
        for (c, exp), o in zip(cases, outs):
            if exp is None:
                # no checksum / not a hexadecimal one / two of them: whatever else happens, the block is not valid
                if not o.startswith('ERR') and tb_field(o, 'valid') == '1' and c.count(b'*') != 1:
                    ctx.fail('a tag block without exactly one checksum is reported valid', {'cmd': 'parse', 'raw': c.hex()},
                             'an error or valid=0', o[:120], {'kind': 'valid-flag'})
                continue
            if o.startswith('ERR') or (tb_field(o, 'valid') == '1') != exp:
                ctx.fail('validity flag differs from "checksum equals XOR of the content"', {'cmd': 'parse', 'raw': c.hex()},
                         exp, o[:100], {'kind': 'valid-iff'})
        # 3. unknown / malformed fields are ignored
        base_fields = [b's:st1', b'c:123', b't:hi there', b'g:1-2-9']
        junk = [b'x:unknown', b'nocolon', b'', b'\xff\xfe', b'zz:1', b'G:1-2-3', b':', b'g:1-2', b'g:a-b-c', b'g:1-2-3-4',
                b's', b'S:upper', b'\xc3:1',
                # unknown codes that END in a known one, or start with a blank / a colon
                b'xs:other', b'ts:1', b' s:blank', b':s:colon', b'src:9', b'xg:1-2-3', b'gg:4-5-6', b'nn:7', b'dc:1', b'tr:5']
        ref = impl.step('tagblock.parse ' + impl.hx(b','.join(base_fields) + b'*%X' % xor(b','.join(base_fields))))
        ops, meta = [], []
        for j in junk:
            for pos in range(len(base_fields) + 1):
                fs = base_fields[:pos] + [j] + base_fields[pos:]
                c = b','.join(fs)
                ops.append('tagblock.parse ' + impl.hx(c + b'*%X' % xor(c)))
                meta.append((j, pos))
        outs = ctx.corr(ops, impl.step, 'tagblock.parse')
        for (j, pos), o in zip(meta, outs):
            strip = lambda s: re.sub(r'(actual|expected)=\d+ ', '', s)
            if o.startswith('ERR') or strip(o) != strip(ref):
                ctx.fail('an unknown/malformed field affected the known fields', {'cmd': 'junk', 'junk': j.hex(), 'pos': pos},
                         strip(ref)[:120], o[:120], {'kind': 'ignored'})
        # 4. the sentence after a tag block is parsed as without it
        base = nmea_cases.base_sentences(rng)
        sentences = [base['single']] + base['two'] + [base['wrapper'], b'!AIVDM,1,1,,A,15M67FC000G?ufbE`FepT@3n00Sa,0*00',
                                                       b'$GPGGA,1,2,3*00', b'garbage', b'!AIVDM,1,1,,A,\x01,0*00']
        blocks = [b's:x*11', b'g:1-2-3,s:y*00', b'junk', b'*', b's:\xc3\xa9*12', b'c:1']
        ops, meta = [], []
        for s in sentences:
            for tb in blocks:
                for lead, trail in ((b'', b''), (b'\n', b''), (b' ', b'\r\n'), (b'\r\n', b' '), (b'\t', b'\n')):
                    # surrounding whitespace is stripped before the tag block is looked for
                    ops.append('parse ' + (lead + b'\\' + tb + b'\\' + s + trail).hex())
                    meta.append((lead + s + trail, tb))
        outs = ctx.corr(ops, impl.step, 'parse')
        for (s, tb), o in zip(meta, outs):
            bare = impl.step('parse ' + s.hex())
            exp = bare if bare.startswith('ERR') else bare.replace(' tb=N ', ' tb=%s ' % tb.hex())
            if o != exp:
                ctx.fail('a leading tag block changed how the sentence is parsed', {'cmd': 'attach', 'line': s.hex(), 'tb': tb.hex()},
                         exp[:150], o[:150], {'kind': 'sentence-unchanged'})


PROP = Prop()
