"""C08 — re-encoding a decoded message is stable."""
from .. import gen, impl


def boundaries(cls):
    """bit lengths that end on a field boundary (after every field), incl. the full length"""
    out, off = [], 0
    for name, w, *_ in gen.fields_of(cls):
        off += w
        out.append(off)
    return out


def zero_padding(cname, bits):
    """sub-character padding bits of text fields zero (the property's quantifier)"""
    cls = gen.concrete_classes()[cname]
    b = list(bits)
    for name, off, w, d_type, signed, varlen in gen.field_offsets(cls):
        if d_type is str:
            end = min(len(b), off + w)
            n = end - off
            if n > 0 and n % 6:
                for i in range(end - n % 6, end):
                    b[i] = '0'
    return ''.join(b)


def parse_fields(canon):
    cls, kv = canon.split('|', 1)
    return cls, [tuple(x.split('=', 1)) for x in kv.split(';')]


class Prop:
    lean_files = ['PyaisVerif/Properties/C08.lean']
    rule = ('every concrete class x every length that ends on a field boundary (incl. the full length) plus, for the '
            'classes with a variable-length tail, whole-character / whole-octet / ragged tail lengths; random content '
            'with per-field sentinel sweeps (all-zero, all-one, sign bit, every raw value of fields <= 8 bits incl. '
            'all enum codes and all 256 rate-of-turn values, text with @, blanks and lower part of the alphabet); '
            'decode -> to_bitarray -> decode must be the identity on the decoded message, and bit-exact when no field '
            'was normalised; compared with the Lean model (reencode); non-trivial = at least one field normalised or '
            'absent')
    assumptions = ['float fields are compared as exact decimals; IEEE rounding in the converters is modelled in exact arithmetic']

    def cases(self, ctx):
        rng = ctx.rng('c08')
        out = []
        reps = 2 if ctx.tier == 'quick' else 25
        for cname, cls in sorted(gen.concrete_classes().items()):
            t, disc = gen.TYPE_OF[cname]
            lo = max([8] + [i + 1 for i in disc])
            fo = gen.field_offsets(cls)
            last = fo[-1]
            lengths = [L for L in boundaries(cls) if L >= lo]
            if last[5]:      # variable-length tail: documented shorter forms
                start = last[1]
                unit = 6 if last[3] is str else 8
                lengths += [start + unit * k for k in (1, 2, 3, 7, 20) if start + unit * k <= start + last[2]]
                lengths += [start + k for k in (1, 3, 5, 9, 13) if start + k <= start + last[2]]
            for L in sorted(set(lengths)):
                for _ in range(reps):
                    out.append((cname, zero_padding(cname, gen.payload_bits(rng, cname, length=L)), 'len%d' % L))
            # per-field sentinel sweeps at full length
            for name, off, w, d_type, signed, varlen in fo:
                if name == 'msg_type' or any(off <= i < off + w for i in disc):
                    continue
                pats = set(gen.sentinel_patterns(w))
                if w <= 8:
                    pats |= {gen.bits_of_int(v, w) for v in range(1 << w)}
                if d_type is str:
                    for txt in ([0] * (w // 6), [32] * (w // 6), [1, 0, 2], [32, 1, 32], [1, 32, 32, 0, 5], [63] * (w // 6),
                                [rng.randrange(64) for _ in range(w // 6)]):
                        txt = (txt + [0] * (w // 6))[:w // 6]
                        pats.add(''.join(gen.bits_of_int(c, 6) for c in txt) + '0' * (w % 6))
                for p in sorted(pats):
                    out.append((cname, zero_padding(cname, gen.payload_bits(rng, cname, overrides={off: p})), 'field:' + name))
        return out

    def check(self, ctx, cname, bits, label, m1, b2, m2):
        inp = {'class': cname, 'bits': bits, 'case': label}
        sig = {'class': cname}
        if m1.startswith('ERR'):
            return
        if b2.startswith('ERR'):
            ctx.fail('a decoded message cannot be re-encoded', inp, 'bits', b2, dict(sig, kind='reencode-raises', exc=b2[4:]))
            return
        if m2 != m1:
            c1, f1 = parse_fields(m1)
            c2, f2 = parse_fields(m2) if not m2.startswith('ERR') else (m2, [])
            diff = [k for (k, a), (_, b) in zip(f1, f2) if a != b] if f2 else ['*']
            how = sorted({'%s->%s' % ('empty-text' if a == 's:' else 'value', 'None' if b == 'N' else 'other')
                          for (k, a), (_, b) in zip(f1, f2) if a != b}) if f2 else ['*']
            ctx.fail('decode -> encode -> decode is not the identity on the decoded message', inp,
                     m1[:200], m2[:200], dict(sig, kind='not-idempotent', fields=diff[:4], how=how))

    def run(self, ctx):
        cs = self.cases(ctx)
        ops1 = ['frombits_cls %s %s' % (c, b) for c, b, _ in cs]
        m1 = ctx.corr(ops1, impl.step, 'frombits_cls', nontrivial=lambda l, o: '=N' in o)
        ops2 = ['reencode %s %s' % (c, b) for c, b, _ in cs]
        b2 = ctx.corr(ops2, impl.step, 'reencode', nontrivial=lambda l, o: not o.startswith('ERR') and o != l.split()[2])
        ops3, idx = [], []
        for i, ((c, b, _), x) in enumerate(zip(cs, b2)):
            if not x.startswith('ERR'):
                ops3.append('frombits_cls %s %s' % (c, x))
                idx.append(i)
        m2s = ctx.corr(ops3, impl.step, 'frombits_cls')
        m2 = {i: x for i, x in zip(idx, m2s)}
        exact = 0
        for i, (c, b, label) in enumerate(cs):
            ctx.count('class:' + c)
            self.check(ctx, c, b, label, m1[i], b2[i], m2.get(i, 'ERR:-'))
            if b2[i] == b:
                exact += 1
        ctx.dist['bit_exact_cases'] = exact

    def replay(self, ctx, payload):
        inp = payload['failure']['input']
        c, b = inp['class'], inp['bits']
        m1 = impl.step('frombits_cls %s %s' % (c, b))
        b2 = impl.step('reencode %s %s' % (c, b))
        m2 = impl.step('frombits_cls %s %s' % (c, b2)) if not b2.startswith('ERR') else 'ERR:-'
        self.check(ctx, c, b, inp.get('case', ''), m1, b2, m2)
        return not ctx.failures


PROP = Prop()
