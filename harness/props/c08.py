"""C08 — re-encoding a decoded message is stable."""
import enum
from fractions import Fraction

from .. import common, gen, impl


def boundaries(cls):
    """bit lengths that end on a field boundary (after every field), incl. the full length"""
    out, off = [], 0
    for name, w, *_ in gen.fields_of(cls):
        off += w
        out.append(off)
    return out


def zero_padding(cname, bits):
    """sub-character padding bits of text fields zero (the property's quantifier)"""
    cls = gen.concrete_classes()[cname]
    b = list(bits)
    for name, off, w, d_type, signed, varlen in gen.field_offsets(cls):
        if d_type is str:
            end = min(len(b), off + w)
            n = end - off
            if n > 0 and n % 6:
                for i in range(end - n % 6, end):
                    b[i] = '0'
    return ''.join(b)


def _rhe(fr):
    import math
    f = math.floor(fr)
    d = fr - f
    if d > Fraction(1, 2) or (d == Fraction(1, 2) and f % 2 == 1):
        return f + 1
    return f


def rot_fixed_point(r):
    """ITU rate of turn (exact arithmetic): is the signed raw value r a fixed point of
    from_turn . to_turn?"""
    if r == 0 or abs(r) in (127, 128):
        return True
    v = _rhe(Fraction(r * r * 10 ** 6, 4733 * 4733))
    n = 0
    while (2 * n + 1) ** 2 * 10 ** 6 <= 4 * 4733 ** 2 * v:
        n += 1
    return n == abs(r)


def text_canonical(slice_bits, varlen):
    """six-bit text on the wire that decoding does not normalise: nothing but `@` after the first
    `@`, no outer blanks; a variable-length text has no `@` at all (it is re-encoded unpadded)"""
    n = len(slice_bits) // 6
    chars = [int(slice_bits[6 * i:6 * i + 6], 2) for i in range(n)]
    if 0 in chars:
        k = chars.index(0)
        if varlen or any(c != 0 for c in chars[k:]):
            return False
        chars = chars[:k]
    if varlen and not chars:
        return False
    return not chars or (chars[0] != 32 and chars[-1] != 32)


def exactness(cname, bits):
    """(in_quantifier, exact, why): is the payload inside the bit-exactness claim of the property
    (length on a field boundary, or a whole number of octets/characters of a variable-length tail)
    and is no present field normalised by decoding?  Written from the property / the standard, not
    from the encoder."""
    cls = gen.concrete_classes()[cname]
    L = len(bits)
    fo = gen.field_offsets(cls)
    on_boundary = L in boundaries(cls)
    name, off, w, d_type, signed, varlen = fo[-1]
    if not on_boundary:
        if not (varlen and off < L <= off + w):
            return False, False, 'not-on-boundary'
        unit = 6 if d_type is str else 8
        if (L - off) % unit:
            return False, False, 'ragged-tail'
    for (name, off, w, d_type, signed, varlen), f in zip(fo, [x[5] for x in gen.fields_of(cls)]):
        if off >= L:
            break
        sl = bits[off:min(L, off + w)]
        conv = f.metadata['to_converter'] or f.converter
        ecls = gen.enum_members(conv) if conv is not None else None
        if name == 'turn':
            v = int(sl, 2)
            if v >= 128:
                v -= 256
            if not rot_fixed_point(v):
                return True, False, 'turn-normalised'
        elif ecls is not None and isinstance(ecls, type) and issubclass(ecls, enum.Enum):
            if int(sl, 2) not in {int(m.value) for m in ecls}:
                return True, False, 'enum-fallback'
        elif d_type is str:
            if not text_canonical(sl, varlen):
                return True, False, 'text-normalised'
    return True, True, ''


def parse_fields(canon):
    cls, kv = canon.split('|', 1)
    return cls, [tuple(x.split('=', 1)) for x in kv.split(';')]


class Prop:
    lean_files = ['PyaisVerif/Properties/C08.lean']
    rule = ('every concrete class x every length that ends on a field boundary (incl. the full length) plus, for the '
            'classes with a variable-length tail, whole-character / whole-octet / ragged tail lengths; random content '
            'with per-field sentinel sweeps (all-zero, all-one, sign bit, every raw value of fields <= 8 bits incl. '
            'all enum codes and all 256 rate-of-turn values, text with @, blanks and lower part of the alphabet); '
            'decode -> to_bitarray -> decode must be the identity on the decoded message, and bit-exact when no field '
            'was normalised; compared with the Lean model (reencode); non-trivial = at least one field normalised or '
            'absent ; the re-encoded sentences also decoded in reverse order and read back through one long-lived NMEAQueue (order alternating)')
    assumptions = ['float fields are compared as exact decimals; IEEE rounding in the converters is modelled in exact arithmetic']

    def cases(self, ctx):
        rng = ctx.rng('c08')
        out = []
        reps = 2 if ctx.tier == 'quick' else 25
        for cname, cls in sorted(gen.concrete_classes().items()):
            t, disc = gen.TYPE_OF[cname]
            lo = max([8] + [i + 1 for i in disc])
            fo = gen.field_offsets(cls)
            last = fo[-1]
            lengths = [L for L in boundaries(cls) if L >= lo]
            if last[5]:      # variable-length tail: documented shorter forms
                start = last[1]
                unit = 6 if last[3] is str else 8
                lengths += [start + unit * k for k in (1, 2, 3, 7, 20) if start + unit * k <= start + last[2]]
                lengths += [start + k for k in (1, 3, 5, 9, 13) if start + k <= start + last[2]]
                lengths += [start + unit * k for k in gen.critical_tail_units(cls)]
            for L in sorted(set(lengths)):
                for _ in range(reps):
                    out.append((cname, zero_padding(cname, gen.payload_bits(rng, cname, length=L)), 'len%d' % L))
            # per-field sentinel sweeps at full length
            for name, off, w, d_type, signed, varlen in fo:
                if name == 'msg_type' or any(off <= i < off + w for i in disc):
                    continue
                pats = set(gen.sentinel_patterns(w))
                if w <= 8:
                    pats |= {gen.bits_of_int(v, w) for v in range(1 << w)}
                if d_type is str:
                    for txt in ([0] * (w // 6), [32] * (w // 6), [1, 0, 2], [32, 1, 32], [1, 32, 32, 0, 5], [63] * (w // 6),
                                [rng.randrange(64) for _ in range(w // 6)]):
                        txt = (txt + [0] * (w // 6))[:w // 6]
                        pats.add(''.join(gen.bits_of_int(c, 6) for c in txt) + '0' * (w % 6))
                for p in sorted(pats):
                    out.append((cname, zero_padding(cname, gen.payload_bits(rng, cname, overrides={off: p})), 'field:' + name))
        return out

    def check(self, ctx, cname, bits, label, m1, b2, m2):
        inp = {'class': cname, 'bits': bits, 'case': label}
        sig = {'class': cname}
        if m1.startswith('ERR'):
            return
        if b2.startswith('ERR'):
            ctx.fail('a decoded message cannot be re-encoded', inp, 'bits', b2, dict(sig, kind='reencode-raises', exc=b2[4:]))
            return
        if m2 != m1:
            c1, f1 = parse_fields(m1)
            c2, f2 = parse_fields(m2) if not m2.startswith('ERR') else (m2, [])
            diff = [k for (k, a), (_, b) in zip(f1, f2) if a != b] if f2 else ['*']
            how = sorted({'%s->%s' % ('empty-text' if a == 's:' else 'value', 'None' if b == 'N' else 'other')
                          for (k, a), (_, b) in zip(f1, f2) if a != b}) if f2 else ['*']
            ctx.fail('decode -> encode -> decode is not the identity on the decoded message', inp,
                     m1[:200], m2[:200], dict(sig, kind='not-idempotent', fields=diff[:4], how=how))
            return
        inq, exact, why = exactness(cname, bits)
        ctx.count('exactness:' + ('exact' if exact else why))
        if inq and exact and b2 != bits:
            cls = gen.concrete_classes()[cname]
            lname, loff, lw, ld, _, lvar = gen.field_offsets(cls)[-1]
            how = ('ragged-text-width-padding-dropped' if (ld is str and lw % 6 and len(bits) == loff + lw
                                                           and b2 == bits[:len(b2)] and len(bits) - len(b2) == lw % 6)
                   else 'bits-differ')
            ctx.fail('no field was normalised, yet the re-encoded payload is not bit for bit the received one', inp,
                     bits, b2, dict(sig, kind='not-bit-exact', how=how))

    def run(self, ctx):
        cs = self.cases(ctx)
        ops1 = ['frombits_cls %s %s' % (c, b) for c, b, _ in cs]
        m1 = ctx.corr(ops1, impl.step, 'frombits_cls', nontrivial=lambda l, o: '=N' in o)
        ops2 = ['reencode %s %s' % (c, b) for c, b, _ in cs]
        b2 = ctx.corr(ops2, impl.step, 'reencode', nontrivial=lambda l, o: not o.startswith('ERR') and o != l.split()[2])
        ops3, idx = [], []
        for i, ((c, b, _), x) in enumerate(zip(cs, b2)):
            if not x.startswith('ERR'):
                ops3.append('frombits_cls %s %s' % (c, x))
                idx.append(i)
        m2s = ctx.corr(ops3, impl.step, 'frombits_cls')
        m2 = {i: x for i, x in zip(idx, m2s)}
        exact = 0
        for i, (c, b, label) in enumerate(cs):
            ctx.count('class:' + c)
            self.check(ctx, c, b, label, m1[i], b2[i], m2.get(i, 'ERR:-'))
            if b2[i] == b:
                exact += 1
        ctx.dist['bit_exact_cases'] = exact
        # the same cycle through the sentence layer: decode -> encode_msg -> decode() of the sentences
        sub = [(c, b, label) for (c, b, label) in cs if label.startswith('len')][::2 if ctx.tier == 'quick' else 1]
        ops = ['cycle_msg %s %s' % (c, b) for c, b, _ in sub]
        outs = common.pmap(impl.step, ops)
        ctx.evaluations += len(ops)
        ctx.corr_commands['cycle_msg(oracle only)'] = len(ops)
        firsts = {(c, b): m for (c, b, _), m in zip(cs, m1)}
        for (c, b, label), o in zip(sub, outs):
            want = firsts[(c, b)]
            if want.startswith('ERR') or o == 'SKIP':
                continue
            known_empty = False
            if o.startswith(('READERS-DIFFER', 'RESULT-DEPENDS')):
                ctx.fail('the re-encoded message does not come back the same through every way of reading it',
                         {'family_op': 'cycle_msg %s %s' % (c, b)}, want[:200], o[:400], {'kind': 'family', 'marker': o.split()[0]})
                continue
            if o != want:
                c1, f1 = parse_fields(want)
                f2 = parse_fields(o)[1] if not o.startswith('ERR') else []
                diff = [k for (k, a), (_, bb) in zip(f1, f2) if a != bb] if f2 else ['*']
                how = sorted({'%s->%s' % ('empty-text' if a == 's:' else 'value', 'None' if bb == 'N' else 'other')
                              for (k, a), (_, bb) in zip(f1, f2) if a != bb}) if f2 else ['*']
                ctx.fail('decode -> encode_msg -> decode() of the sentences is not the identity on the decoded message',
                         {'class': c, 'bits': b, 'case': label + '/sentences'}, want[:200], o[:200],
                         {'class': c, 'kind': 'not-idempotent', 'fields': diff[:4], 'how': how})

    def replay(self, ctx, payload):
        inp = payload['failure']['input']
        c, b = inp['class'], inp['bits']
        if str(inp.get('case', '')).endswith('/sentences'):
            want = impl.step('frombits_cls %s %s' % (c, b))
            return impl.step('cycle_msg %s %s' % (c, b)) in (want, 'SKIP')
        m1 = impl.step('frombits_cls %s %s' % (c, b))
        b2 = impl.step('reencode %s %s' % (c, b))
        m2 = impl.step('frombits_cls %s %s' % (c, b2)) if not b2.startswith('ERR') else 'ERR:-'
        self.check(ctx, c, b, inp.get('case', ''), m1, b2, m2)
        return not ctx.failures


PROP = Prop()
