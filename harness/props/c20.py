"""C20 — communication state decoded bit-exactly, classified SOTDMA / ITDMA."""
from .. import common, gen, impl

# message classes that carry a radio status: (class, width of the radio field)
RADIO_CLASSES = [('MessageType1', 19), ('MessageType2', 19), ('MessageType3', 19), ('MessageType4', 19),
                 ('MessageType11', 19), ('MessageType9', 20), ('MessageType18', 20),
                 ('MessageType26AddressedStructured', 20), ('MessageType26BroadcastUnstructured', 20)]


def bits_of(r, lo, w):
    return (r >> lo) % (1 << w)      # ITU bit range, written independently of pyais


def spec_sotdma(r):
    d = {k: None for _, k in impl.CS_KEYS}
    d['sync_state'] = bits_of(r, 17, 2)
    t = d['slot_timeout'] = bits_of(r, 14, 3)
    sub = bits_of(r, 0, 14)
    if t == 0:
        d['slot_offset'] = sub
    elif t == 1:
        d['utc_hour'] = bits_of(sub, 9, 5)
        d['utc_minute'] = bits_of(sub, 2, 7)
    elif t in (2, 4, 6):
        d['slot_number'] = sub
    else:
        d['received_stations'] = sub
    return d


def spec_itdma(r):
    d = {k: None for _, k in impl.CS_KEYS}
    d.update(sync_state=bits_of(r, 17, 2), slot_increment=bits_of(r, 4, 13), num_slots=bits_of(r, 1, 3),
             keep_flag=bits_of(r, 0, 1))
    return d


def utc_valid(r):
    return not (bits_of(r, 14, 3) == 1 and bits_of(bits_of(r, 0, 14), 2, 7) > 59)


SOTDMA_T, ITDMA_T, BOTH_T = (1, 2, 4, 11), (3,), (9, 18, 26)


def spec_commstate(t, radio):
    raw = radio % (1 << 19)
    if t in SOTDMA_T:
        so = True
    elif t in ITDMA_T:
        so = False
    else:
        so = bits_of(radio, 19, 1) == 0
    return so, raw, (spec_sotdma(raw) if so else spec_itdma(raw))


class Prop:
    lean_files = ['PyaisVerif/Properties/C20.lean']
    rule = ('complete enumeration of all 2^19 radio values through get_sotdma_comm_state and '
            'get_itdma_comm_state (model vs pyais, and pyais vs an independent div/mod reading of the ITU '
            'bit ranges); get_communication_state / is_sotdma / is_itdma for every radio-carrying type on a '
            'stratified sample (quick) or on all 2^19 (types 1-4, 11) and 2^20 (types 9, 18, 26) values '
            '(thorough); a case is non-trivial when the implementation returns a state (no exception) ; every state asked for twice with the first answer taken apart in place; a message whose radio value is changed after it reported its state')
    assumptions = ['radio values are the non-negative integers a 19/20-bit field can hold']

    def check_one(self, ctx, kind, args, out):
        if kind == 'sotdma':
            r = args[0]
            if utc_valid(r):
                exp = impl.show_cs(spec_sotdma(r))
                if out != exp:
                    ctx.fail('SOTDMA state differs from the ITU bit ranges', {'cmd': 'sotdma', 'radio': r},
                             exp, out, {'cmd': 'sotdma'})
        elif kind == 'itdma':
            r = args[0]
            exp = impl.show_cs(spec_itdma(r))
            if out != exp:
                ctx.fail('ITDMA state differs from the ITU bit ranges', {'cmd': 'itdma', 'radio': r}, exp, out,
                         {'cmd': 'itdma'})
        else:
            t, r = args
            so, raw, d = spec_commstate(t, r)
            if not utc_valid(raw) and so:
                return
            exp = '%s %s %d %s' % (str(so).lower(), str(not so).lower(), raw, impl.show_cs(d))
            if out != exp:
                ctx.fail('classification / reported state differs from the ITU reading',
                         {'cmd': 'commstate', 'type': t, 'radio': r}, exp, out, {'cmd': 'commstate', 'type': t})

    def run(self, ctx):
        full = range(1 << 19)
        lines = ['sotdma %d' % r for r in full]
        outs = ctx.corr(lines, impl.step, 'sotdma')
        for r, o in zip(full, outs):
            self.check_one(ctx, 'sotdma', (r,), o)
        lines = ['itdma %d' % r for r in full]
        outs = ctx.corr(lines, impl.step, 'itdma')
        for r, o in zip(full, outs):
            self.check_one(ctx, 'itdma', (r,), o)
        rng = ctx.rng('commstate')
        types = SOTDMA_T + ITDMA_T + BOTH_T
        if ctx.tier == 'thorough':
            vals = range(1 << 20)
        else:
            vals = sorted(set(
                [0, 1, (1 << 19) - 1, 1 << 19, (1 << 19) + 1, (1 << 20) - 1, (1 << 18), (1 << 18) - 1] +
                # states that real equipment sends all day (class B "CS" units: 0x60006, with and without the selector)
                [0x60006, 0xe0006, 0x60006 ^ 1, 393222, 917510, 49235, 2249, 81954] +
                [(s << 19) | (a << 17) | (b << 14) | c for s in (0, 1) for a in range(4) for b in range(8)
                 for c in (0, 1, 0x3fff, 0x2aaa, 0x1555)] +
                [rng.randrange(1 << 20) for _ in range(6000)]))
        # every radio value is queried with ALL types back to back (same process, same value, different
        # classification), so that state leaking between calls would be noticed as well
        lines, meta = [], []
        for r in vals:
            for t in types:
                if t not in BOTH_T and r >= (1 << 19):
                    continue
                lines.append('commstate %d %d' % (t, r))
                meta.append((t, r))
        outs = ctx.corr(lines, impl.step, 'commstate')
        for (t, r), o in zip(meta, outs):
            self.check_one(ctx, 'commstate', (t, r), o)
        ctx.dist['exhaustive_sotdma_itdma'] = 1
        # end to end: full-length payloads of every radio-carrying type; the radio status is the last 19/20
        # bits of the payload (read here from the bits, not through pyais), the report comes from the decoded
        # message's own is_sotdma / is_itdma / get_communication_state
        lines, meta = [], []
        radios = [0, 1, (1 << 19) - 1, 1 << 19, (1 << 19) + 1, (1 << 20) - 1, 0x7ffff, 0x80000, 0x55555, 0xaaaaa]
        for cname, w in RADIO_CLASSES:
            t = gen.TYPE_OF[cname][0]
            for k in range(60 if ctx.tier == 'quick' else 3000):
                r = (radios[k] if k < len(radios) else rng.randrange(1 << 20)) % (1 << w)
                bits = gen.payload_bits(rng, cname)
                bits = bits[:len(bits) - w] + gen.bits_of_int(r, w)
                lines.append('commstate_bits %s' % bits)
                meta.append((t, r, bits))
        outs = common.pmap(impl.step, lines)
        ctx.evaluations += len(lines)
        ctx.corr_commands['commstate_bits(oracle only)'] = len(lines)
        for (t, r, bits), o in zip(meta, outs):
            so, raw, d = spec_commstate(t, r)
            if not utc_valid(raw) and so:
                continue
            exp = '%s %s %d %s' % (str(so).lower(), str(not so).lower(), raw, impl.show_cs(d))
            if o != exp:
                ctx.fail('state reported by a decoded message differs from the ITU reading of its radio bits',
                         {'cmd': 'commstate_bits', 'type': t, 'radio': r, 'bits': bits}, exp, o,
                         {'cmd': 'commstate_bits', 'type': t})

    # --- the two ties of the comm-state functions -------------------------------------------------
    SOURCE_TEXT = ('C20_src_', 'C20_source_', 'mem4')

    def only_source_text(self, broken):
        def is_src(b):
            if b['kind'] == 'theorem':
                return b['name'].startswith(self.SOURCE_TEXT)
            if b['kind'] == 'translator':
                return all('comm-state function' in d for d in b['detail'])
            return False
        return bool(broken) and all(is_src(b) for b in broken)

    def search(self, ctx, broken):
        """when only the source-text obligations (tie 1) broke: the complete enumeration of the thorough tier, model
        against code and code against the ITU reading; otherwise the generic search"""
        from harness import framework
        if not self.only_source_text(broken) or not ctx.model_available:
            return framework.generic_search(self, ctx, ctx.pid)
        c2 = framework.Ctx(ctx.pid, 'thorough', ctx.seed, ctx.model_available, False)
        self.run(c2)
        ctx.evaluations += c2.evaluations
        ctx.dist['complete_enumeration_cases'] = c2.evaluations
        ctx.failures.extend(c2.failures)
        ctx.disagreements.extend(c2.disagreements)
        if not c2.failures and not c2.disagreements:
            ctx.dist['complete_enumeration_clean'] = 1

    def second_tie(self, ctx, broken):
        if self.only_source_text(broken) and ctx.dist.get('complete_enumeration_clean') and not ctx.disagreements:
            return list(broken)
        return []

    def replay(self, ctx, payload):
        inp = payload['failure']['input']
        if inp['cmd'] == 'commstate_bits':
            t, r = inp['type'], inp['radio']
            so, raw, d = spec_commstate(t, r)
            exp = '%s %s %d %s' % (str(so).lower(), str(not so).lower(), raw, impl.show_cs(d))
            return impl.step('commstate_bits %s' % inp['bits']) == exp
        if inp['cmd'] in ('sotdma', 'itdma'):
            self.check_one(ctx, inp['cmd'], (inp['radio'],), impl.step('%s %d' % (inp['cmd'], inp['radio'])))
        else:
            self.check_one(ctx, 'commstate', (inp['type'], inp['radio']),
                           impl.step('commstate %d %d' % (inp['type'], inp['radio'])))
        return not ctx.failures


PROP = Prop()
