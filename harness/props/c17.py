"""C17 — tag block groups are delivered complete, once, and unmixed."""
import itertools
import re

from .. import gen, impl


class Bodies:
    """bare AIS sentences to put behind the tag blocks: fresh single sentences, a repetition of the
    previous body (two different lines may carry the same AIS sentence, e.g. relayed twice), and the
    fragments of multi-fragment messages (a group is very often the fragments of one message, but
    its boundaries need not coincide with the message's)"""

    def __init__(self, rng, plain=False):
        self.rng, self.plain = rng, plain
        self.last = None
        self.pending = []
        self.seq = 0

    def next(self):
        rng = self.rng
        r = 0.0 if self.plain else rng.random()
        if r < 0.15 and self.last is not None:
            return self.last
        if 0.93 < r:
            # a Gatehouse wrapper line can carry a tag block (and be a member of a group) like any sentence
            self.last = gen.gatehouse(d=rng.choice([1, 28]), mo=rng.choice([1, 12]))
            return self.last
        if r < 0.45:
            if not self.pending:
                n = rng.randint(2, 3)
                bits = gen.payload_bits(rng, 'MessageType8', length=rng.randint(150, 400))
                payload, _ = gen.armor(bits)
                cuts = sorted(rng.sample(range(1, len(payload)), n - 1))
                self.seq = (self.seq + 1) % 10
                self.pending = gen.render(bits, seq=str(self.seq), chan=rng.choice('AB'), cuts=cuts)
            self.last = self.pending.pop(0)
            return self.last
        self.last = gen.render(gen.payload_bits(rng, rng.choice(['MessageType1', 'MessageType18', 'MessageType27'])))[0]
        return self.last


def make_sentence(rng, tag, bodies=None):
    s = (bodies or Bodies(rng, plain=True)).next()
    return (gen.tag_block(tag) + s) if tag is not None else s


# group ids: boundary and unusual values next to ordinary ones (all distinct)
GID_POOL = [0, 1, 2, 3, 6, 7, 9, 10, 99, 100, 101, 255, 256, 1000, 4512, 65535, 65536, 99999, 2 ** 31 - 1, 2 ** 31, 2 ** 63,
            10 ** 20]


def schedule_cases(rng, tier):
    """(labels, lines): lists of sentences with group structure; each case = list of (line, group key or None,
    index in group)"""
    cases = []
    # exhaustive: all interleavings of up to 3 groups (sizes <= 3) + one ungrouped sentence, non-first sentences of
    # each group in every order
    sizes_list = [(2,), (3,), (2, 2), (2, 3), (3, 3), (1, 2), (2, 2, 2), (2, 3, 2)]
    if tier == 'thorough':
        sizes_list += [(3, 3, 3), (4, 2), (2, 2, 3)]
    for sizes in sizes_list:
        groups = []
        bodies = Bodies(rng, plain=(len(cases) % 2 == 0))
        gids = rng.sample(GID_POOL, len(sizes))
        if sizes in ((2,), (3,), (2, 2)):
            gids[0] = 0              # group id 0 is an ordinary id
        for gi, t in enumerate(sizes):
            gid = gids[gi]
            sents = [make_sentence(rng, b'g:%d-%d-%d,s:x%d' % (i + 1, t, gid, i), bodies) for i in range(t)]
            groups.append((gid, t, sents))
        ungrouped = make_sentence(rng, None, bodies)
        tagged_nogroup = make_sentence(rng, b's:plain,c:123', bodies)
        seq_variants = []
        for gid, t, sents in groups:
            orders = [[sents[0]] + list(p) for p in itertools.permutations(sents[1:])]
            seq_variants.append([[(s, gid) for s in o] for o in orders])
        extra = [[(ungrouped, None)], [(tagged_nogroup, None)]]
        for combo in itertools.product(*seq_variants):
            seqs = list(combo) + extra
            n_inter = 1
            inter = gen.all_interleavings(seqs)
            # cap the number of interleavings per combination; exhaustive for the small ones
            cap = 400 if tier == 'quick' else 4000
            allv = list(itertools.islice(inter, cap + 1))
            if len(allv) > cap:
                allv = [gen.random_interleaving(rng, seqs) for _ in range(cap)]
            for v in allv:
                cases.append(('sizes=%s' % (sizes,), v, {gid: t for gid, t, _ in groups}))
    # random: more and larger groups
    for _ in range(200 if tier == 'quick' else 40000):
        ng = rng.randint(1, 5)
        seqs, tots = [], {}
        bodies = Bodies(rng, plain=rng.random() < 0.3)
        gids = rng.sample(GID_POOL + list(range(200, 210)), ng)
        for gi in range(ng):
            t = rng.randint(1, 6)
            gid = gids[gi]
            tots[gid] = t
            # leading zeros are legal decimal renderings of the same numbers
            fmt = rng.choice([b'g:%d-%d-%d', b'g:%d-%d-%d', b'g:%02d-%02d-%05d', b's:st,g:%d-%d-%d,n:7',
                              # unknown / malformed neighbours of the group field are ignored one by one
                              b's:ST1,,g:%d-%d-%d', b'nocolon,g:%d-%d-%d,x:y', b'\xff\xfe,g:%d-%d-%d', b':,g:%d-%d-%d,'])
            sents = [make_sentence(rng, fmt % (i + 1, t, gid), bodies) for i in range(t)]
            rest = sents[1:]
            rng.shuffle(rest)
            seqs.append([(s, gid) for s in [sents[0]] + rest])
        for _ in range(rng.randint(0, 3)):
            seqs.append([(make_sentence(rng, rng.choice([None, b's:a', b'n:5,s:b']), bodies), None)])
        if rng.random() < 0.3:
            # a sentence whose tag block cannot be parsed (no checksum, a checksum that is not hexadecimal, two
            # checksums - even with a group field inside) belongs to no group: a singleton, at once
            bad = rng.choice([b'\\s:x,c:123\\', b'\\s:y*ZZ\\', b'\\s:z*2A*2A\\', b'\\g:1-2-%d\\' % gids[0],
                              b'\\g:1-2-%d*GG\\' % gids[0], b'\\*\\'])
            seqs.append([(bad + make_sentence(rng, None, bodies), None)])
        case = gen.random_interleaving(rng, seqs)
        label = 'random'
        if rng.random() < 0.4:
            # an ABORTED predecessor: a group with the same id began earlier (its first sentence, perhaps some others)
            # and its tail was lost for good; the id is then used again by a complete group, as feeds do (ids wrap
            # around).  The predecessor never completes and is never delivered; the successor is delivered like any
            # group.  The predecessor's key differs from the successor's only in this bookkeeping, not on the wire.
            gid = rng.choice(gids)
            first_at = min(i for i, (_, g) in enumerate(case) if g == gid)
            t_old = rng.choice([tots[gid], tots[gid] + 1, rng.randint(2, 6)])
            if t_old >= 2:
                key_old = gid + 10 ** 30
                tots[key_old] = t_old
                old = [make_sentence(rng, b'g:%d-%d-%d' % (i + 1, t_old, gid), bodies) for i in range(t_old)]
                keep = [old[0]] + [x for x in old[1:-1] if rng.random() < 0.6]
                if rng.random() < 0.5 and t_old > 2:
                    keep = [old[0]] + rng.sample(old[1:], rng.randint(0, t_old - 2))
                pos = sorted(rng.randint(0, first_at) for _ in keep)
                for off, (p_, x) in enumerate(zip(pos, keep)):
                    case.insert(p_ + off, (x, key_old))
                label = 'random+aborted-predecessor'
        cases.append((label, case, tots))
    # very many groups open at the same time (a feed that multiplexes thousands of sources): the first sentences of
    # all groups, then the others round-robin
    for ng in ((1500,) if tier == 'quick' else (1023, 1024, 1025, 1500, 3000)):
        bodies = Bodies(rng, plain=True)
        groups = []
        for gi in range(ng):
            t = 2 + gi % 3
            groups.append((gi + 1, t, [make_sentence(rng, b'g:%d-%d-%d' % (i + 1, t, gi + 1), bodies) for i in range(t)]))
        case = [(sents[0], gid) for gid, t, sents in groups]
        for k in range(1, 4):
            case += [(sents[k], gid) for gid, t, sents in groups if k < t]
        cases.insert(1, ('many-open-groups=%d' % ng, case, {gid: t for gid, t, _ in groups}))
    return cases


def expected(case, tots):
    """the property: singletons immediately; a group when its last sentence arrives, complete, in arrival order"""
    exp = []
    seen = {}
    for i, (line, gid) in enumerate(case):
        if gid is None or tots[gid] == 1:
            exp.append((i, [line]))
            continue
        seen.setdefault(gid, []).append(line)
        if len(seen[gid]) == tots[gid]:
            exp.append((i, seen[gid]))
    return exp


def parse_tbq(out):
    res = []
    for item in out.split(' ; ') if out != '-' else []:
        m = re.fullmatch(r'T(\d+):\[([^\]]*)\]', item)
        if m:
            res.append((int(m.group(1)), [bytes.fromhex(x) for x in m.group(2).split('|') if x]))
    return res


def strip_tag(line):
    return line


class Prop:
    lean_files = ['PyaisVerif/Properties/C17.lean']
    rule = ('ALL interleavings (capped at 400/4000 per combination, exhaustive below) of up to 3 tag-block groups of '
            'sizes ≤ 3 with ungrouped and tag-blocked-but-ungrouped sentences, non-first sentences of each group in '
            'every order; seeded random schedules with up to 5 groups of sizes 1..6; fed to TagBlockQueue directly '
            'and through IterMessages(tbq=…) and NMEAQueue(tbq=…); each run is compared with the Lean model and with '
            'the property (singletons immediately; each group once, complete, in arrival order, at its last '
            'sentence); non-trivial = at least one multi-sentence group ; sentences behind unparsable tag blocks as ungrouped singletons')
    assumptions = ['group ids are unique per group within a schedule; the first sentence of a group arrives before its others']

    def check_case(self, ctx, fe, case, tots, o):
        got = [(i, [x for x in lst]) for i, lst in parse_tbq(o)]
        # the tag block queue stores the sentence objects; raw of a sentence = the line without its tag block
        exp = [(i, [l[l.index(b'\\', 1) + 1:] if l.startswith(b'\\') else l for l in lst])
               for i, lst in expected(case, tots)]
        if fe.startswith('file'):
            # no positions through a file: the sequence of lists
            got, exp = [(0, l) for _, l in got], [(0, l) for _, l in exp]
        if got != exp:
            ctx.fail('tag block queue deliveries differ from "complete, once, unmixed, at the last sentence"',
                     {'frontend': fe, 'lines': [l.hex() for l, _ in case], 'gids': [g for _, g in case],
                      'tots': {str(k): v for k, v in tots.items()}},
                     [(i, len(l)) for i, l in exp], [(i, len(l)) for i, l in got],
                     {'kind': 'groups', 'frontend': fe.split()[0]})

    def run(self, ctx):
        rng = ctx.rng('c17')
        cases = schedule_cases(rng, ctx.tier)
        for fe in ('tbq', 'stream iter 1', 'stream queue 1', 'stream bytestream 1', 'file 1'):
            sub = cases if fe == 'tbq' else cases[::5]
            if fe == 'file 1':
                # the readers of file objects / file names: one LF-terminated line per sentence
                ops = ['file 1 %s' % b''.join(l + b'\n' for l, _ in case).hex() for _, case, _ in sub]
            else:
                ops = ['%s %s' % (fe, ' '.join(l.hex() for l, _ in case)) for _, case, _ in sub]
            outs = ctx.corr(ops, impl.step, fe.split()[0] + ('-' + fe.split()[1] if ' ' in fe else ''),
                            nontrivial=lambda l, o: '|' in o)
            for (label, case, tots), o in zip(sub, outs):
                ctx.count(label)
                self.check_case(ctx, fe, case, tots, o)

    def replay(self, ctx, payload):
        inp = payload['failure']['input']
        case = [(bytes.fromhex(l), g) for l, g in zip(inp['lines'], inp['gids'])]
        tots = {int(k): v for k, v in inp['tots'].items()}
        if inp['frontend'].startswith('file'):
            o = impl.step('file 1 %s' % b''.join(bytes.fromhex(l) + b'\n' for l in inp['lines']).hex())
        else:
            o = impl.step('%s %s' % (inp['frontend'], ' '.join(inp['lines'])))
        self.check_case(ctx, inp['frontend'], case, tots, o)
        return not ctx.failures


PROP = Prop()
