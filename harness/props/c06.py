"""C06 — socket readers yield the same lines however the transport chunks the bytes."""
import itertools

from .. import gen, impl, nmea_cases


def spec_lines(stream):
    """the property: exactly the LF-terminated lines, each once, complete, in order; an unterminated
    tail is never delivered"""
    out, cur = [], b''
    for b in stream:
        cur += bytes([b])
        if b == 10:
            out.append(cur)
            cur = b''
    return out


def wellformed_streams(n):
    """all byte strings of length n over {x, CR, LF} in which every CR is immediately followed by LF"""
    for t in itertools.product(b'x\r\n', repeat=n):
        s = bytes(t)
        ok = True
        for i, c in enumerate(s):
            if c == 13 and (i + 1 >= n or s[i + 1] != 10):
                ok = False
                break
        if ok:
            yield s


def chunkings(s):
    n = len(s)
    for mask in range(1 << (n - 1)):
        cuts = [i + 1 for i in range(n - 1) if mask >> i & 1]
        pts = [0] + cuts + [n]
        yield [s[a:b] for a, b in zip(pts, pts[1:])]


def hx(b):
    return b.hex() if b else '-'


class Prop:
    lean_files = ['PyaisVerif/Properties/C06.lean']
    rule = ('ALL 2^(n-1) segmentations of ALL byte streams of length n ≤ N over the alphabet {x, CR, LF} in which '
            'every CR is followed by LF (N = 8 quick, 11 thorough; exhaustive), through SocketStream.read with a '
            'scripted recv(); random chunkings (incl. 1-byte chunks) of multi-line AIS streams with LF and CRLF '
            'terminators through the whole socket front-end; the implementation is compared with the Lean model and '
            'with the property itself (the LF-terminated lines of the joined stream); non-trivial = more than one '
            'chunk and at least one complete line')
    assumptions = ['recv() hands over consecutive non-empty pieces of the byte stream (TCP) / one datagram per call (UDP); '
                   'the kernel socket layer itself is not modelled']
    exhaustive_n = {'quick': 8, 'thorough': 11}

    def check(self, ctx, chunks, out):
        stream = b''.join(chunks)
        exp = '[' + ','.join(hx(l) for l in spec_lines(stream)) + ']'
        if out != exp:
            ctx.fail('lines handed on differ from the LF-terminated lines of the stream',
                     {'chunks': [c.hex() for c in chunks]}, exp, out, {'kind': 'lines'})

    def run(self, ctx):
        N = self.exhaustive_n[ctx.tier]
        for n in range(1, N + 1):
            lines, meta = [], []
            for s in wellformed_streams(n):
                for ch in chunkings(s):
                    lines.append('sock ' + ' '.join(c.hex() for c in ch))
                    meta.append(ch)
            outs = ctx.corr(lines, impl.step, 'sock',
                            nontrivial=lambda l, o: l.count(' ') > 1 and o != '[]')
            for ch, o in zip(meta, outs):
                self.check(ctx, ch, o)
            ctx.count('exhaustive_len_%d' % n, len(lines))
        ctx.dist['exhaustive_up_to_len'] = N
        # long lines (tag-blocked sentences exceed 82 bytes; nothing limits the length of a line): every single
        # cut position, a few fixed chunk sizes, random cuts
        rng0 = ctx.rng('long')
        long_lines = [b'x' * n + t for n in (81, 82, 83, 120, 300, 1000) for t in (b'\n', b'\r\n')]
        long_lines += [b'\\g:1-2-73874,n:157036,s:r003669945,c:1241544035*4A\\!AIVDM,1,1,,B,15N4cJ`005Jrek0H@9n`DW5608EP,0*13\r\n',
                       b'\\s:station-with-a-long-name,c:1671533231,t:some free text that makes the block long*55\\'
                       b'!AIVDM,2,1,3,A,55?MbV02;H;s<HtKR20EHE:0@T4@Dn2222222216L961O5Gf0NSQEp6ClRp8,0*1C\n']
        # text that is not ASCII (station names in tag blocks, comment lines of a provider; UTF-8 and Latin-1): a packet
        # boundary may fall between the bytes of one character
        long_lines += [b'# kommentar: Troms\xc3\xb8 \xe6\xb8\xaf \xf0\x9f\x9a\xa2\n', b'# caf\xe9 du port\r\n', b'\xc3\xb8\n',
                       gen.tag_block(b's:Troms\xc3\xb8,c:1671533231') + b'!AIVDM,1,1,,B,15N4cJ`005Jrek0H@9n`DW5608EP,0*13\r\n']
        lines, meta = [], []
        for L in long_lines:
            stream = b'ab\n' + L + b'cd\n'
            cuts_list = [[c] for c in range(1, len(stream), 1 if len(stream) < 400 else 37)]
            cuts_list += [list(range(k, len(stream), k)) for k in (1, 7, 24, 40, 64, 90)]
            cuts_list += [sorted(set(rng0.sample(range(1, len(stream)), 3))) for _ in range(10)]
            for cuts in cuts_list:
                pts = [0] + cuts + [len(stream)]
                ch = [stream[a:b] for a, b in zip(pts, pts[1:])]
                lines.append('sock ' + ' '.join(c.hex() for c in ch))
                meta.append(ch)
        # many lines in ONE packet (a burst of keep-alive line breaks behind a sentence; a large receive buffer full of
        # short sentences): more than a thousand, several thousand
        s1 = b'!AIVDM,1,1,,A,15M67FC000G?ufbE`FepT@3n00Sa,0*5C\r\n'
        for burst in (b'\n' * 1100, b'\r\n' * 1500, b'a\n' * 2100, (s1 * 1300)):
            stream = s1 + burst + s1
            for size in (len(stream), 4096, 65536):
                ch = [stream[i:i + size] for i in range(0, len(stream), size)]
                lines.append('sock ' + ' '.join(c.hex() for c in ch))
                meta.append(ch)
        outs = ctx.corr(lines, impl.step, 'sock', nontrivial=lambda l, o: l.count(' ') > 1 and o != '[]')
        for ch, o in zip(meta, outs):
            self.check(ctx, ch, o)
        ctx.count('long_line_cases', len(lines))
        # a very long line (a proprietary sentence, a log record: more than a mebibyte) between two sentences, in
        # packets of the usual sizes - the implementation against the property only (the recorded input is the packet
        # size, not two megabytes of hex)
        first = b'!AIVDM,1,1,,A,15M67FC000G?ufbE`FepT@3n00Sa,0*5C\r\n'
        body = (b'$PXYZ,' + b'0123456789ABCDEF' * 70000)
        body = body[:1048570] + b'!AIVDM,1,1,,B,15M67FC000G?ufbE`FepT@3n00Sa,0*5F' + body[1048570:1100000]
        stream = first + body + b'\r\n' + first
        for size in (4096, 1460, 65536):
            ch = [stream[i:i + size] for i in range(0, len(stream), size)]
            ctx.evaluations += 1
            got = impl.sock_read(ch)
            exp = '[' + ','.join(hx(l + b'\n') for l in stream.split(b'\n')[:-1]) + ']'      # (= spec_lines, fast)
            ctx.count('megabyte_line_cases')
            if got != exp:
                import hashlib
                ctx.fail('lines handed on differ from the LF-terminated lines of the stream (a line longer than a mebibyte)',
                         {'megabyte_line': True, 'packet_size': size, 'stream_sha1': hashlib.sha1(stream).hexdigest()},
                         '3 lines (%d bytes)' % len(exp), got[:200] + ' … (%d bytes)' % len(got), {'kind': 'lines-long'})
        # AIS streams through the whole socket front-end
        rng = ctx.rng('ais')
        base = nmea_cases.base_sentences(rng)
        msgs = [base['single']] + base['two'] + [base['wrapper'], base['tagged']] + base['three']
        lines, meta = [], []
        for term in (b'\n', b'\r\n'):
            stream = b''.join(m + term for m in msgs)
            ref = 'socket 0 ' + stream.hex()
            lines.append(ref)
            meta.append((term, None))
            reps = 150 if ctx.tier == 'quick' else 3000
            for _ in range(reps):
                k = rng.choice([1, 2, 3, 5, 10, 40])
                cuts = sorted(set(rng.sample(range(1, len(stream)), min(k, len(stream) - 1))))
                pts = [0] + cuts + [len(stream)]
                lines.append('socket 0 ' + ' '.join(stream[a:b].hex() for a, b in zip(pts, pts[1:])))
                meta.append((term, cuts))
            lines.append('socket 0 ' + ' '.join('%02x' % b for b in stream))     # 1-byte chunks
            meta.append((term, 'bytes'))
        outs = ctx.corr(lines, impl.step, 'socket')
        ref = {}
        for (term, cuts), l, o in zip(meta, lines, outs):
            if cuts is None:
                ref[term] = o
            elif o != ref[term]:
                ctx.fail('delivered AIS messages depend on the packet boundaries',
                         {'chunks': l.split()[2:]}, ref[term][:300], o[:300], {'kind': 'messages'})

    def replay(self, ctx, payload):
        if payload['failure']['input'].get('megabyte_line'):
            return None       # regenerated by the generic replay
        chunks = [bytes.fromhex(c) for c in payload['failure']['input']['chunks']]
        self.check(ctx, chunks, impl.step('sock ' + ' '.join(c.hex() for c in chunks)))
        return not ctx.failures


PROP = Prop()
