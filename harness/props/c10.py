"""C10 — the checksum flag is true exactly when the NMEA checksum matches."""
import re

from .. import gen, impl, nmea_cases

CHK_TOKENS = [b'5C', b'5c', b'C', b'05C', b'005C', b'+5C', b'-5C', b'0x5C', b'0X5c', b' 5C', b'5C ', b'5_C', b'_5C',
              b'', b'5G', b'\xff', b'5C*', b'*5C', b'5C*5C', b'0x', b'0x_5C', b'5__C', b'1' * 40]


def xor(bs):
    c = 0
    for b in bs:
        c ^= b
    return c


def field(out, key):
    m = re.search(r'(?:^| )%s=(\S*)' % key, out)
    return m.group(1) if m else None


class Prop:
    lean_files = ['PyaisVerif/Properties/C10.lean']
    rule = ('valid sentences of several shapes (single, multi-part, tag-blocked, all talkers); all 255 wrong checksum '
            'values; checksum-field token matrix (1/2/3 digits, case, sign, 0x, blanks, underscores, missing/duplicate '
            '*); every single-byte substitution at every body position by printable bytes (quick: a seeded subset of '
            'positions × all 95 printable bytes; thorough: every position × all 256 bytes); multi-part messages with '
            'every subset of parts corrupted, lenient and strict; each through parse/assemble/decode of pyais and of '
            'the model; non-trivial = the sentence parsed ; a correctly checksummed sentence for each of the 128 checksum values; multi-part messages with an empty fragment')
    assumptions = []

    def expect_valid(self, line):
        """the property's reading: two hex digits after '*' equal the XOR of the bytes between the start
        delimiter and '*' (for a stripped line without tag block)"""
        star = line.find(b'*')
        if star < 0:
            return None
        body, chk = line[1:star], line[star + 1:]
        if re.fullmatch(rb'[0-9A-Fa-f]{3,8}', chk):
            # an over-long field: whether one reads its first two digits or the whole number - if neither is the
            # XOR of the body the sentence is not valid (the readings that differ are left to the model)
            if int(chk, 16) != xor(body) and int(chk[:2], 16) != xor(body):
                return False
            return None
        if not re.fullmatch(rb'[0-9A-Fa-f]{2}', chk):
            return None
        return int(chk, 16) == xor(body)

    def check_parse(self, ctx, label, line, out):
        exp = self.expect_valid(line)
        if out.startswith('ERR:') or exp is None:
            return
        got = field(out, 'valid') == '1'
        if got != exp:
            ctx.fail('validity flag differs from "two hex digits after * equal XOR of body"',
                     {'cmd': 'parse', 'line': line.hex(), 'case': label}, exp, got, {'kind': 'flag', 'case': label.split('@')[0]})

    def run(self, ctx):
        rng = ctx.rng('c10')
        base = nmea_cases.base_sentences(rng)
        plain = [base['single']] + base['two'] + base['three']
        for t in nmea_cases.TALKERS:
            plain.append(gen.render(gen.payload_bits(rng, 'MessageType1'), talker=t + rng.choice(['VDM', 'VDO']))[0])
        cases = [('valid', l) for l in plain]
        # un-fragmented long sentences (loggers and base stations write payloads of up to MAX_PAYLOAD_LEN characters in
        # ONE sentence; the body is then far longer than the 82 characters of NMEA 0183): valid, with wrong checksum
        # values, and with substitutions near both ends of the body
        longs = []
        for n_chars in (61, 62, 100, 113, 114, 115, 127, 128, 129, 140, 168, 199, 200):
            bits = gen.payload_bits(rng, 'MessageType8', length=1008)[:6 * n_chars]
            pl, fill = gen.armor(bits)
            longs.append(gen.sentence(rng.choice(['AIVDM', 'AIVDO']), 1, 1, '', rng.choice('AB'), pl, fill))
        ctx.dist['long_single_sentences'] = len(longs)
        for l in longs:
            cases.append(('valid-long', l))
            star = l.rfind(b'*')
            good = int(l[star + 1:], 16)
            for v in sorted(set([good ^ 1, good ^ 0x80, (good + 1) % 256, 0, 255] + [rng.randrange(256) for _ in range(6)])):
                if v != good:
                    cases.append(('chk-long=%02X' % v, l[:star + 1] + b'%02X' % v))
            pos = sorted(set([1, 2, 6, 14, 15, 16, 17, star - 130, star - 129, star - 128, star - 127, star - 3, star - 1]
                             + [rng.randrange(1, star) for _ in range(8)]))
            for i in pos:
                if 1 <= i < star:
                    for v in (l[i] ^ 1, l[i] ^ 0x10, 0x30, 0x77):
                        if v != l[i] and v not in (42,):
                            cases.append(('subst-long@%d' % i, l[:i] + bytes([v]) + l[i + 1:]))
        # a correctly checksummed sentence for EVERY value the checksum can take (00 included): flagged valid
        by_value = {}
        tries = 0
        while len(by_value) < 128 and tries < 40000:
            tries += 1
            l = gen.render(gen.payload_bits(rng, rng.choice(['MessageType1', 'MessageType18', 'MessageType27', 'MessageType9'])),
                           chan=rng.choice('AB'))[0]
            by_value.setdefault(int(l[-2:], 16), l)
        for v in sorted(by_value):
            cases.append(('valid-chk=%02X' % v, by_value[v]))
        ctx.dist['checksum_values_covered_by_valid_sentences'] = len(by_value)
        # wrong checksum values
        for l in plain[:3]:
            star = l.rfind(b'*')
            for v in range(256):
                cases.append(('chk=%02X' % v, l[:star + 1] + b'%02X' % v))
        # over-long checksum fields whose low byte is the right value (`*105` for a body that XORs to 05)
        for l in plain[:4]:
            star = l.rfind(b'*')
            good = int(l[star + 1:], 16)
            for hi in (1, 2, 0xF, 0x10, 0xFF):
                cases.append(('chk-overlong', l[:star + 1] + b'%X' % ((hi << 8) | good)))
        # checksum-field token matrix (C10_general is compared through the correspondence only)
        for l in plain[:4]:
            star = l.rfind(b'*')
            good = l[star + 1:]
            for tok in CHK_TOKENS:
                tok2 = tok.replace(b'5C', good).replace(b'5c', good.lower()).replace(b'5_C', good[:1] + b'_' + good[1:])
                cases.append(('tok', l[:star + 1] + tok2))
                cases.append(('tok-nostar', l[:star] + tok2))
        # single-byte substitutions in the body
        subs = list(range(256)) if ctx.tier == 'thorough' else list(range(32, 127))
        for l in (plain if ctx.tier == 'thorough' else plain[:5]):
            star = l.rfind(b'*')
            positions = range(1, star) if ctx.tier == 'thorough' else sorted(rng.sample(range(1, star), 14))
            for i in positions:
                for v in subs:
                    if v != l[i] and v != 42:
                        cases.append(('subst@%d' % i, l[:i] + bytes([v]) + l[i + 1:]))
        # structural bytes at EVERY body position of many sentences (a substituted delimiter must not let a
        # corrupted sentence through: the position matters, e.g. where the XOR of the prefix happens to be 0)
        special = [0x5c, 0x2c, 0x21, 0x24, 0x0d, 0x0a, 0x20, 0x09, 0x00, 0x7f, 0x80, 0xff, 0x41, 0x30]
        extra = []
        for k in range(40 if ctx.tier == 'quick' else 400):
            c = rng.choice(['MessageType1', 'MessageType18', 'MessageType5', 'MessageType27', 'MessageType9'])
            ls = gen.render(gen.payload_bits(rng, c), talker=rng.choice(nmea_cases.TALKERS) + rng.choice(['VDM', 'VDO']),
                            chan=rng.choice('AB'))
            extra.append(ls[0])
        for l in extra:
            star = l.rfind(b'*')
            for i in range(1, star):
                for v in special + [l[i] | 0x80]:       # ... and the byte itself with its top bit set
                    if v != l[i]:
                        cases.append(('subst@%d' % i, l[:i] + bytes([v]) + l[i + 1:]))
        # a character replaced by a two-byte UTF-8 sequence (the line is still text: str arguments take this path)
        for l in extra[:10]:
            star = l.rfind(b'*')
            for i in range(1, star):
                for seq in (b'\xc3\xa9', b'\xce\xa9'):
                    cases.append(('subst2@%d' % i, l[:i] + seq + l[i + 1:]))
        lines = ['parse %s' % l.hex() for _, l in cases]
        outs = ctx.corr(lines, impl.step, 'parse')
        for (label, l), o in zip(cases, outs):
            ctx.count('case:' + label.split('@')[0].split('=')[0])
            self.check_parse(ctx, label, l, o)
            if label.startswith('subst') and not o.startswith(('ERR:', 'READERS-DIFFER')) and field(o, 'valid') == '1':
                ctx.fail('single-byte corruption of the body neither rejected nor flagged',
                         {'cmd': 'parse', 'line': l.hex(), 'case': label}, 'rejected or valid=0', o[:200],
                         {'kind': 'subst'})
        # strict decode() of single corrupted sentences: whenever the line parses and its flag is false, strict
        # mode must raise the checksum error (not some later error, and not nothing) - digits of the fragment
        # count / number fields included
        sops, smeta = [], []
        for (label, l), o in zip(cases, outs):
            if label.startswith('subst') and not o.startswith('ERR:') and field(o, 'valid') == '0' and ' ais=1 ' in o:
                if len(smeta) % (1 if ctx.tier == 'thorough' else 3) == 0 or l[7:11].count(b',') >= 1:
                    sops.append('decode 1 %s' % l.hex())
                smeta.append(l)
        # the lines with a two-byte character also through decode() (bytes and str arguments must agree: the family)
        dops = ['decode 0 %s' % l.hex() for label, l in cases if label.startswith('subst2')]
        ctx.corr(dops, impl.step, 'decode-utf8')
        souts = ctx.corr(sops, impl.step, 'decode-strict')
        for op, o in zip(sops, souts):
            if o != 'ERR:InvalidNMEAChecksum':
                ctx.fail('strict mode did not raise the checksum error for a sentence flagged invalid',
                         {'cmd': 'decode', 'strict': 1, 'lines': [op.split()[2]]}, 'ERR:InvalidNMEAChecksum', o[:200],
                         {'kind': 'strict-miss'})
        # a Gatehouse wrapper with a wrong checksum among the arguments of decode()
        gh = gen.gatehouse()
        bad_gh = gh[:-2] + (b'00' if gh[-2:] != b'00' else b'01')
        for parts in ([base['single']], base['two']):
            for wrapper, bad in ((gh, False), (bad_gh, True)):
                for pos in range(len(parts) + 1):
                    args = parts[:pos] + [wrapper] + parts[pos:]
                    op = 'decode 1 ' + ' '.join(a.hex() for a in args)
                    o = ctx.corr([op], impl.step, 'decode-strict-gh')[0]
                    lenient = impl.step('decode 0 ' + ' '.join(a.hex() for a in args))
                    exp = 'ERR:InvalidNMEAChecksum' if bad else lenient
                    if o != exp:
                        ctx.fail('strict mode and an invalid wrapper sentence among the arguments',
                                 {'cmd': 'decode', 'strict': 1, 'lines': [a.hex() for a in args]}, exp[:200], o[:200],
                                 {'kind': 'strict-miss' if bad else 'strict-diff'})
        # multi-part: every subset of parts corrupted
        mlines, meta = [], []
        # ... also of messages one of whose fragments has an EMPTY payload (pyais issue #157: `!AIVDM,2,2,0,A,,0*16`)
        bits8 = gen.payload_bits(rng, 'MessageType8', length=360)
        pl8, fill8 = gen.armor(bits8)
        empty_last = [gen.sentence('AIVDM', 2, 1, '0', 'A', pl8, fill8), gen.sentence('AIVDM', 2, 2, '0', 'A', '', 0)]
        empty_mid = [gen.sentence('AIVDM', 3, 1, '4', 'B', pl8[:30], 0), gen.sentence('AIVDM', 3, 2, '4', 'B', '', 0),
                     gen.sentence('AIVDM', 3, 3, '4', 'B', pl8[30:], fill8)]
        for parts in (base['two'], base['three'], empty_last, empty_mid):
            n = len(parts)
            for mask in range(1 << n):
                ps = []
                for i, p in enumerate(parts):
                    if mask >> i & 1:
                        if rng.random() < 0.3:
                            # a wrong checksum value instead of a corrupted body
                            good = int(p[-2:], 16)
                            p = p[:-2] + b'%02X' % rng.choice([v for v in range(256) if v != good])
                        else:
                            j = rng.randrange(1, p.rfind(b','))
                            repl = bytes([p[j] ^ 1]) if (p[j] ^ 1) not in (42, 44) else bytes([p[j] ^ 2])
                            p = p[:j] + repl + p[j + 1:]
                    ps.append(p)
                import itertools
                for order in itertools.permutations(range(n)):       # decode() takes the parts in any order
                    qs = [ps[i] for i in order]
                    for strict in (0, 1):
                        for cmd in ('assemble', 'decode'):
                            mlines.append('%s %d %s' % (cmd, strict, ' '.join(p.hex() for p in qs)))
                            meta.append((cmd, strict, mask, qs))
        outs = ctx.corr(mlines, impl.step, 'assemble/decode')
        res = {(cmd, strict, tuple(ps)): o for (cmd, strict, mask, ps), o in zip(meta, outs)}
        for (cmd, strict, mask, ps), o in zip(meta, outs):
            inp = {'cmd': cmd, 'strict': strict, 'lines': [p.hex() for p in ps], 'corrupted_mask': mask}
            valids = []
            for p in ps:
                po = impl.step('parse %s' % p.hex())
                valids.append(None if po.startswith('ERR:') else field(po, 'valid') == '1')
            if None in valids:
                continue      # a part that no longer parses raises its own error in both modes
            if cmd == 'assemble' and strict == 0 and not o.startswith('ERR:'):
                if (field(o, 'valid') == '1') != all(valids):
                    ctx.fail('assembled validity is not the conjunction of the parts', inp, all(valids), o[:200],
                             {'kind': 'conjunction'})
            if strict == 1:
                lenient = res[(cmd, 0, tuple(ps))]
                if not all(valids):
                    if o != 'ERR:InvalidNMEAChecksum':
                        ctx.fail('strict mode did not raise the checksum error for an invalid part', inp,
                                 'ERR:InvalidNMEAChecksum', o[:200], {'kind': 'strict-miss'})
                elif o != lenient:
                    ctx.fail('strict mode differs from lenient mode although all parts are valid', inp, lenient[:200],
                             o[:200], {'kind': 'strict-diff'})

        self.reader_histories(ctx, rng)

    def reader_histories(self, ctx, rng):
        """what a reader delivers after fragments were lost: messages of one slot in a row, every line intact,
        corrupted (body byte or checksum value) or lost.  Whatever the reader makes of the leftovers, the flag of a
        delivered sentence must be the conjunction of the flags of the very lines it is made of (its `raw`)."""
        ops, meta = [], []
        n_hist = 60 if ctx.tier == 'quick' else 1200
        for k in range(n_hist):
            seq = str(rng.randrange(10))
            chan = rng.choice('AB')
            lines = []
            for m in range(rng.choice([2, 3, 3, 4])):
                nfrag = rng.choice([2, 2, 3])
                bits = gen.payload_bits(rng, rng.choice(['MessageType5', 'MessageType8', 'MessageType19']))
                pl, fill = gen.armor(bits)
                cut = max(1, len(pl) // nfrag)
                chunks = [pl[i * cut:(i + 1) * cut] if i < nfrag - 1 else pl[(nfrag - 1) * cut:] for i in range(nfrag)]
                frs = [gen.sentence('AIVDM', nfrag, i + 1, seq, chan, c, fill if i == nfrag - 1 else 0)
                       for i, c in enumerate(chunks)]
                if rng.random() < 0.3:
                    rng.shuffle(frs)
                for f in frs:
                    r = rng.random()
                    if r < 0.25:
                        continue                                   # lost
                    if r < 0.55:
                        if rng.random() < 0.4:
                            good = int(f[-2:], 16)
                            f = f[:-2] + b'%02X' % rng.choice([v for v in range(256) if v != good])
                        else:
                            j = rng.randrange(f.rfind(b',', 0, f.rfind(b',')) + 1, f.rfind(b','))
                            repl = bytes([f[j] ^ 1]) if (f[j] ^ 1) not in (42, 44) else bytes([f[j] ^ 2])
                            f = f[:j] + repl + f[j + 1:]
                    lines.append(f)
                if rng.random() < 0.3:
                    lines.append(gen.render(gen.payload_bits(rng, 'MessageType1'))[0])
            if not lines:
                continue
            for fe in ('iter', 'queue', 'bytestream'):
                ops.append('stream %s 0 %s' % (fe, ' '.join(l.hex() for l in lines)))
                meta.append((fe, lines))
        outs = ctx.corr(ops, impl.step, 'stream-after-loss')
        ctx.dist['reader_histories_with_lost_fragments'] = len(ops)
        flag = {}
        for (fe, lines), o in zip(meta, outs):
            if o.startswith(('ERR:', 'READERS-DIFFER')) or 'CRASH:' in o:
                continue
            for ev in o.split(' ; '):
                m = re.match(r'D\d+:\[(.*)\]$', ev)
                if not m:
                    continue
                txt = m.group(1)
                raw = bytes.fromhex(field(txt, 'raw') or '')
                parts = [x for x in raw.split(b'\n') if x.strip()]
                if len(parts) < 2:
                    continue
                vs = []
                for x in parts:
                    x = x.strip()
                    if x not in flag:
                        po = impl.step('parse %s' % x.hex())
                        flag[x] = None if po.startswith(('ERR:', 'READERS-DIFFER')) else field(po, 'valid') == '1'
                    vs.append(flag[x])
                if None in vs:
                    continue
                ctx.count('delivered_multipart_after_loss')
                if (field(txt, 'valid') == '1') != all(vs):
                    ctx.fail('validity of a delivered multi-part sentence is not the conjunction of the lines it is made of',
                             {'cmd': 'stream', 'fe': fe, 'lines': [l.hex() for l in lines]}, all(vs), txt[:200],
                             {'kind': 'conjunction-reader'})

    def replay(self, ctx, payload):
        inp = payload['failure']['input']
        if inp['cmd'] == 'stream':
            return None           # the generic replay regenerates the histories from the recorded seed
        if inp['cmd'] == 'parse':
            l = bytes.fromhex(inp['line'])
            o = impl.step('parse %s' % inp['line'])
            self.check_parse(ctx, inp.get('case', ''), l, o)
            if inp.get('case', '').startswith('subst') and not o.startswith('ERR:') and field(o, 'valid') == '1':
                ctx.fail('single-byte corruption neither rejected nor flagged', inp, '', o[:200], {'kind': 'subst'})
        else:
            ps = [bytes.fromhex(x) for x in inp['lines']]
            valids = []
            for p in ps:
                po = impl.step('parse %s' % p.hex())
                valids.append(None if po.startswith('ERR:') else field(po, 'valid') == '1')
            if None in valids:
                return True
            o = impl.step('%s %d %s' % (inp['cmd'], inp['strict'], ' '.join(inp['lines'])))
            lenient = impl.step('%s 0 %s' % (inp['cmd'], ' '.join(inp['lines'])))
            print('observed:', o[:300])
            if inp['cmd'] == 'assemble' and not inp['strict'] and not o.startswith('ERR:'):
                return (field(o, 'valid') == '1') == all(valids)
            if inp['strict']:
                return o == ('ERR:InvalidNMEAChecksum' if not all(valids) else lenient)
            return True
        return not ctx.failures


PROP = Prop()
