"""Tracker histories: generators, an independent abstract tracker (the property text as code) and the
checks of C12–C15 on the implementation's per-operation output."""
import itertools
import re

import pyais

from . import common, gen, impl

MSG_CLASSES = ['MessageType1', 'MessageType5', 'MessageType18', 'MessageType24PartA', 'MessageType24PartB',
               'MessageType21', 'MessageType27', 'MessageType9', 'MessageType19', 'MessageType3', 'MessageType4',
               # types that carry none or few of the tracked attributes (addressed messages, binary data, acks)
               'MessageType6', 'MessageType12', 'MessageType7', 'MessageType10', 'MessageType14', 'MessageType16',
               'MessageType22Broadcast', 'MessageType23', 'MessageType25AddressedStructured', 'MessageType8']


def message_line(rng, cname, mmsi):
    bits = gen.payload_bits(rng, cname, overrides={8: gen.bits_of_int(mmsi, 30)})
    lines = gen.render(bits, cuts=[])
    if len(lines[0]) > 400:
        raise ValueError
    return lines[0]


def make_messages(rng, mmsis, per=3):
    """pool[mmsi] = list of single-sentence messages of different types (different attribute sets)"""
    pool = {}
    deck = []
    for k, m in enumerate(mmsis):
        pool[m] = []
        if len(mmsis) * per >= len(MSG_CLASSES):
            # enough room: deal the message types out so that every one of them occurs in the pool
            if len(deck) < per:
                deck += rng.sample(MSG_CLASSES, len(MSG_CLASSES))
            names, deck = deck[:per], deck[per:]
        else:
            names = rng.sample(MSG_CLASSES, per)
        if k == 0:
            # always: the two kinds of message that share one message type but carry different attributes
            names = ['MessageType24PartA', 'MessageType24PartB'] + names[2:]
        elif k == 2:
            names = ['MessageType24PartB', 'MessageType24PartA'] + names[2:]
        for cname in names:
            cls = gen.concrete_classes()[cname]
            full = gen.total_width(cls)
            bits = gen.payload_bits(rng, cname, length=min(full, 420), overrides={8: gen.bits_of_int(m, 30)})
            payload, fill = gen.armor(bits)
            if len(payload) > 200:
                continue
            pool[m].append(gen.render(bits)[0])
        if k == 1:
            # ... and a position report cut in front of its position next to a complete one of the same type
            for length in (168, 60):
                bits = gen.payload_bits(rng, 'MessageType1', length=length, overrides={8: gen.bits_of_int(m, 30)})
                pool[m].insert(0, gen.render(bits)[0])
    return pool


def msg_attrs(line):
    """the attributes a message carries (non-None AISTrack fields), canonical"""
    m = pyais.decode(line)
    out = {}
    fields = m.asdict()         # the message's own fields (what it carries), not whatever attributes it may have
    for n in impl.TRACK_ATTRS:
        if n in fields and fields[n] is not None:
            out[n] = impl.canon_val(fields[n])
    return int(m.mmsi), out


class AbstractTracker:
    """finite map mmsi -> (attrs, lu); exact expiry; acceptance rule of the property text"""

    def __init__(self, ordered, ttl):
        self.ordered, self.ttl, self.now = ordered, ttl, 0
        self.tracks = {}

    def stale(self, lu):
        return self.ttl is not None and not (self.now - lu < self.ttl)

    def expire(self):
        dead = sorted(m for m, (a, lu) in self.tracks.items() if self.stale(lu))
        for m in dead:
            del self.tracks[m]
        return ['D%d' % m for m in dead]

    def update(self, mmsi, attrs, ts):
        ts = self.now if ts is None else ts
        if mmsi in self.tracks and ts < self.tracks[mmsi][1]:
            return False, []
        if self.ordered and any(ts < lu for _, lu in self.tracks.values()):
            return False, []
        if mmsi in self.tracks:
            merged = dict(self.tracks[mmsi][0])
            merged.update(attrs)
            self.tracks[mmsi] = (merged, ts)
            evs = ['U%d' % mmsi]
        else:
            self.tracks[mmsi] = (dict(attrs), ts)
            evs = ['C%d' % mmsi]
        return True, evs + self.expire()

    def pop(self, mmsi):
        if mmsi in self.tracks:
            del self.tracks[mmsi]
            return ['D%d' % mmsi]
        return []

    def state(self):
        return sorted((m, lu, tuple(sorted(a.items()))) for m, (a, lu) in self.tracks.items())


STATE_RE = re.compile(r'(-?\d+)@(-?\d+)\(([^)]*)\)')


def parse_state(s):
    """'{1@5(speed=f:1,..) 2@7()}' -> ordered list of (mmsi, lu, attrs tuple)"""
    out = []
    for m, lu, attrs in STATE_RE.findall(s):
        a = tuple(sorted(tuple(kv.split('=', 1)) for kv in attrs.split(',') if kv))
        out.append((int(m), int(lu), a))
    return out


def check_history(ctx, pid, ordered, ttl, ops, out, attrs_cache):
    """compare the implementation's per-op output with the abstract tracker and the properties;
    `pid` selects which property's failures are reported (each check reports only its own)"""
    spec = AbstractTracker(ordered, ttl)
    items = out.split(' ; ') if out else []
    inp = {'ordered': ordered, 'ttl': ttl, 'ops': ops}
    alive = {}
    k = 0
    scale = 1          # time unit 1/scale second (op s:<k>); TTLs are given in seconds
    for op in ops:
        p = op.split(':')
        if p[0] == 't':
            spec.now = int(p[1])
            continue
        if p[0] == 'l':
            spec.ttl = None if p[1] == 'N' else int(p[1]) * scale
            continue
        if p[0] == 's':
            spec.ttl = None if spec.ttl is None else spec.ttl // scale * int(p[1])
            scale = int(p[1])
            continue
        if p[0] in 'raz':
            continue
        if k >= len(items):
            ctx.fail('missing output', inp, '', out[:300], {'kind': 'harness'})
            return
        item = items[k]
        k += 1
        head, _, st = item.partition(' {')
        quiet = st.startswith('~')          # (very long histories print the table with the n_latest queries only)
        st = parse_state('{' + st)
        evs = []
        mm = re.match(r'^(u[+-]|c|p|n)\[([^\]]*)\]', head)
        if mm is None:
            if head.startswith('uERR'):
                continue
            if head.startswith('g'):
                if pid == 'C12':
                    want = [t for t in spec.state() if t[0] == int(p[1])]
                    got_t = parse_state('{' + head[1:] + '}')
                    if got_t != want or sorted(st) != spec.state():
                        ctx.fail('get_track differs from the track the tracker holds for the vessel',
                                 dict(inp, at=op[:40]), want, got_t, {'kind': 'get_track'})
                        return
                continue
            ctx.fail('unparsable output', inp, '', item[:200], {'kind': 'harness'})
            return
        kind, body = mm.group(1), mm.group(2)
        if kind == 'n':
            if pid == 'C14':
                check_nlatest(ctx, inp, int(p[1]), [int(x) for x in body.split()], st, ordered)
            if pid == 'C12' and sorted(st) != spec.state():
                ctx.fail('tracker state differs from "most recent known value of every attribute"',
                         dict(inp, at=op[:40]), spec.state()[:5], sorted(st)[:5], {'kind': 'state', 'ordered': ordered})
                return
            continue
        evs = [e for e in body.split(',') if e]
        exp_evs, exp_verdict = [], None
        if kind.startswith('u'):
            if p[1] not in attrs_cache:
                attrs_cache[p[1]] = msg_attrs(bytes.fromhex(p[1]))
            mmsi, attrs = attrs_cache[p[1]]
            before = spec.state()
            exp_verdict, exp_evs = spec.update(mmsi, attrs, None if p[2] == 'N' else int(p[2]))
            got = kind == 'u+'
            if got != exp_verdict and pid == 'C12':
                ctx.fail('update accepted/rejected against the rule of the property', dict(inp, at=op[:40]),
                         exp_verdict, got, {'kind': 'verdict', 'ordered': ordered})
                return
            if not got and pid == 'C12' and not quiet and sorted(st) != before:
                ctx.fail('a rejected update changed the state', dict(inp, at=op[:40]), before, st,
                         {'kind': 'rejected-changed'})
                return
            if not got and evs and pid == 'C15':
                ctx.fail('a rejected update emitted events', dict(inp, at=op[:40]), [], evs, {'kind': 'rejected-event'})
        elif kind == 'c':
            exp_evs = spec.expire()
        elif kind == 'p':
            exp_evs = spec.pop(int(p[1]))
        if quiet:
            if pid == 'C15' and evs != exp_evs:
                ctx.fail('events differ from the life cycle of the tracks', dict(inp, at=op[:40]), exp_evs, evs, {'kind': 'events'})
                return
            continue
        # C12: state (as a set; dict order is not part of the property)
        if pid == 'C12' and sorted(st) != spec.state():
            ctx.fail('tracker state differs from "most recent known value of every attribute"',
                     dict(inp, at=op[:40]), spec.state(), sorted(st), {'kind': 'state', 'ordered': ordered})
            return
        if pid == 'C12' and len({m for m, _, _ in st}) != len(st):
            ctx.fail('two tracks for one MMSI', inp, '', st, {'kind': 'dup'})
        # C13: exact expiry after update / cleanup
        if pid == 'C13' and kind in ('u+', 'c') and spec.ttl is not None:
            for m, lu, _ in st:
                if not (spec.now - lu < spec.ttl):
                    ctx.fail('a track whose age reached the TTL survived', dict(inp, at=op[:40]),
                             'age < ttl', 'mmsi %d age %d' % (m, spec.now - lu), {'kind': 'survivor', 'ordered': ordered})
                    return
            if {m for m, _, _ in st} != {m for m, _, _ in spec.state()}:
                ctx.fail('expiry removed a fresh track or kept a stale one', dict(inp, at=op[:40]),
                         [m for m, _, _ in spec.state()], [m for m, _, _ in st], {'kind': 'expiry', 'ordered': ordered})
                return
        # C15: events
        if pid == 'C15':
            if evs != exp_evs:
                ctx.fail('events differ from the life cycle of the tracks', dict(inp, at=op[:40]), exp_evs, evs,
                         {'kind': 'events'})
                return
            for e in evs:
                m = int(e[1:])
                a = alive.get(m, False)
                if (e[0] == 'C' and a) or (e[0] in 'UD' and not a):
                    ctx.fail('event sequence violates CREATED UPDATED* DELETED', dict(inp, at=op[:40]), '', evs,
                             {'kind': 'lifecycle'})
                    return
                alive[m] = e[0] != 'D'
            if {m for m, a in alive.items() if a} != {m for m, _, _ in st}:
                ctx.fail('tracks differ from the MMSIs created and not yet deleted', dict(inp, at=op[:40]),
                         sorted(m for m, a in alive.items() if a), sorted(m for m, _, _ in st), {'kind': 'alive'})
                return


def check_nlatest(ctx, inp, n, result, st, ordered):
    lus = {m: lu for m, lu, _ in st}
    exp_len = max(0, min(n, len(st)))
    bad = None
    if len(result) != exp_len:
        bad = 'returned %d tracks, expected %d' % (len(result), exp_len)
    elif len(set(result)) != len(result) or any(m not in lus for m in result):
        bad = 'tracks not distinct / not from the tracker'
    else:
        left = [m for m in lus if m not in result]
        if result and left and max(lus[m] for m in left) > min(lus[m] for m in result):
            bad = 'a track left out has a later last_updated than a track returned'
        elif not ordered and [lus[m] for m in result] != sorted((lus[m] for m in result), reverse=True):
            bad = 'unordered mode result is not sorted newest first'
    if bad:
        ctx.fail('n_latest_tracks: ' + bad, dict(inp, n=n), '', result, {'kind': 'nlatest', 'ordered': ordered})


def small_histories(pool, length):
    """all histories of `length` operations over a small alphabet"""
    mmsis = sorted(pool)
    alphabet = []
    for m in mmsis:
        for line in pool[m][:2]:
            for ts in (0, 1, 2):
                alphabet.append('u:%s:%d' % (line.hex(), ts))
        alphabet.append('p:%d' % m)
    alphabet += ['c', 't:1', 't:3', 't:4']
    return itertools.product(alphabet, repeat=length)


def random_history(rng, pool, length, ttl_choices, epoch=0, mix=False):
    """`epoch`: the clock starts there (realistic UNIX times in seconds, or in milliseconds); `mix`: some
    explicit timestamps are a thousand times larger (a feed stamping in another unit: to the tracker they are
    just numbers, larger ones are later)"""
    mmsis = sorted(pool)
    ops, now = [], epoch
    if epoch:
        ops.append('t:%d' % now)
    for _ in range(length):
        r = rng.random()
        if r < 0.55:
            m = rng.choice(mmsis)
            line = rng.choice(pool[m])
            ts = rng.choice(['N', str(max(0, now + rng.randint(-6, 2))), str(now)])
            if mix and ts != 'N' and rng.random() < 0.4:
                ts = str(int(ts) * 1000)
            ops.append('u:%s:%s' % (line.hex(), ts))
        elif r < 0.65:
            ops.append('p:%d' % rng.choice(mmsis))
        elif r < 0.75:
            ops.append('c')
        elif r < 0.9:
            now += rng.choice([0, 1, 1, 2, 3, 5, 10])
            ops.append('t:%d' % now)
        elif r < 0.93:
            ops.append('l:%s' % rng.choice(ttl_choices))
        elif r < 0.95:
            ops.append('%s:%s' % (rng.choice('ra'), rng.choice('CUD')))     # an observer leaves / comes back
        elif r < 0.97:
            ops.append('g:%d' % rng.choice(mmsis + [999]))
        else:
            ops.append('n:%d' % rng.randint(0, len(mmsis) + 1))
    return ops


def expiry_histories(rng, pool, count):
    """directed at the expiry bookkeeping: three to five vessels whose insertion order is not their time order,
    then one disturbance (the oldest / the newest / any track removed by hand, or the oldest refreshed, or a late
    report of a new vessel), then the clock visits every moment at which some track's age is one short of, equal
    to and one beyond the TTL, with a cleanup (or an update of another vessel) at each"""
    out = []
    mmsis = sorted(pool)
    for _ in range(count):
        ttl = rng.choice([3, 5, 10])
        k = rng.randint(3, min(5, len(mmsis)))
        vs = rng.sample(mmsis, k)
        base = rng.choice([0, 50, 1673259290])
        stamps = rng.sample(range(base + 20, base + 20 + 3 * ttl), k)
        ordered = rng.random() < 0.3
        if ordered:
            stamps.sort()
        ops = ['t:%d' % (base + 20)]
        lu = {}
        for m, ts in zip(vs, stamps):
            ops.append('u:%s:%d' % (rng.choice(pool[m]).hex(), ts))
            lu[m] = ts
        oldest = min(lu, key=lu.get)
        newest = max(lu, key=lu.get)
        d = rng.choice(['pop-oldest', 'pop-newest', 'pop-any', 'refresh-oldest', 'late-new', 'none', 'pop-oldest',
                        'query-refresh', 'query-refresh'])
        if d == 'query-refresh' and not ordered:
            # the table is looked at (n_latest_tracks, as the README does between updates), then a known vessel that
            # is not the newest reports again with a time stamp between its own and the newest one
            ops.append('n:%d' % rng.randint(1, k))
            m = rng.choice(sorted(x for x in lu if x != newest))
            ts = rng.randint(lu[m], lu[newest])
            ops.append('u:%s:%d' % (rng.choice(pool[m]).hex(), ts)); lu[m] = ts
        if d == 'pop-oldest':
            ops.append('p:%d' % oldest); lu.pop(oldest)
        elif d == 'pop-newest':
            ops.append('p:%d' % newest); lu.pop(newest)
        elif d == 'pop-any':
            m = rng.choice(sorted(lu)); ops.append('p:%d' % m); lu.pop(m)
        elif d == 'refresh-oldest' and not ordered:
            ts = rng.randint(lu[oldest], max(lu.values()))
            ops.append('u:%s:%d' % (rng.choice(pool[oldest]).hex(), ts)); lu[oldest] = ts
        elif d == 'late-new' and not ordered:
            rest = [m for m in mmsis if m not in lu]
            if rest:
                m = rng.choice(rest)
                ts = min(lu.values()) + rng.randint(-2, 2)
                ops.append('u:%s:%d' % (rng.choice(pool[m]).hex(), ts)); lu[m] = ts
        if rng.random() < 0.3:
            ops.append('n:%d' % rng.randint(1, 3))
        times = sorted({t + ttl + e for t in lu.values() for e in (-1, 0, 1)})
        for t in times:
            if t < base + 20:
                continue
            ops.append('t:%d' % t)
            ops.append('c' if rng.random() < 0.8 else 'n:2')
        if rng.random() < 0.5:
            # the same history counted in quarter seconds, with the vessels' time stamps moved by fractions of a
            # second (so that several tracks share one whole second, and ages fall a fraction short of the TTL)
            q = []
            for op in ops:
                p = op.split(':')
                if p[0] == 't':
                    q.append('t:%d' % (int(p[1]) * 4 + rng.choice([0, 0, 1, 2, 3])))
                elif p[0] == 'u':
                    q.append('u:%s:%d' % (p[1], int(p[2]) * 4 + rng.choice([0, 1, 2, 3])))
                else:
                    q.append(op)
            last = max(i for i, op in enumerate(q) if op[0] in 'up')
            ops = ['s:4'] + q[:last + 1] + ['n:1', 'n:2', 'n:3'] + q[last + 1:]
        out.append((ordered, ttl, ops))
    return out


def big_histories(rng, tier):
    """(a) thousands of vessels in one tracker (fast paths for large tables); (b) time stamps in nanoseconds since
    the epoch given as ints - beyond 2**53, where neighbouring ints are one float - a few nanoseconds apart"""
    out = []
    for n in ((2100,) if tier == 'quick' else (2047, 2048, 2100, 5000)):
        ms = list(range(200000001, 200000001 + n))
        rng.shuffle(ms)
        ops = ['z:1', 't:100000']
        stamps = rng.sample(range(1000, 90000), n)
        for m, ts in zip(ms, stamps):
            ops.append('u:%s:%d' % (message_line(rng, 'MessageType1', m).hex(), ts))
        ops += ['n:1', 'n:5', 'n:32', 'n:33']
        for m in rng.sample(ms, 5):
            ops.append('u:%s:%d' % (message_line(rng, 'MessageType18', m).hex(), 95000 + m % 7))
        ops += ['n:3', 'n:%d' % (n - 1)]
        out.append((False, None, ops))
    base = 1673259271000000357
    for _ in range(4 if tier == 'quick' else 200):
        ordered = rng.random() < 0.5
        ms = [301, 302, 303]
        ops, last = [], {}
        t = base
        for _ in range(rng.randint(6, 14)):
            m = rng.choice(ms)
            t2 = t + rng.choice([-200, -57, -56, -1, 0, 1, 56, 57, 130, 300])
            ops.append('u:%s:%d' % (message_line(rng, rng.choice(['MessageType1', 'MessageType18']), m).hex(), t2))
            t = max(t, t2)
        ops += ['n:1', 'n:2', 'n:3']
        out.append((ordered, None, ops))
    return out


def run_tracker_checks(ctx, pid):
    rng = ctx.rng('tracker')
    attrs_cache = {}
    pool = make_messages(rng, [101, 202], per=2)
    lines, meta = [], []
    # exhaustive small histories (both modes, TTL None / 2), each followed by n_latest queries
    L = 3
    for ordered in (False, True):
        for ttl in (None, 2):
            for h in small_histories(pool, L):
                ops = list(h) + ['n:0', 'n:1', 'n:2', 'n:5']
                lines.append('tracker %d %s %s' % (ordered, 'N' if ttl is None else ttl, ' '.join(ops)))
                meta.append((ordered, ttl, ops))
    ctx.dist['exhaustive_history_length'] = L
    if ctx.tier == 'thorough':
        sample = rng.sample(list(small_histories(pool, 4)), 60000)
        for h in sample:
            ordered, ttl = rng.choice([False, True]), rng.choice([None, 2])
            ops = list(h) + ['n:1', 'n:2']
            lines.append('tracker %d %s %s' % (ordered, 'N' if ttl is None else ttl, ' '.join(ops)))
            meta.append((ordered, ttl, ops))
    # long random histories over more vessels and message types
    # (MMSIs as the wire can carry them: the field has 30 bits, so ten-digit values up to 2^30 - 1 arrive too)
    pool2 = make_messages(rng, [111, 222, 227006760, 999999999, 1000000001, 1073741823], per=4)
    for i in range(300 if ctx.tier == 'quick' else 6000):
        ordered = rng.random() < 0.5
        ttl = rng.choice([None, 2, 5, 10])
        epoch = rng.choice([0, 0, 0, 1673259290, 1673259290000])
        ops = random_history(rng, pool2, rng.choice([20, 60, 200]) if ctx.tier == 'thorough' else rng.choice([20, 60]),
                             ['N', '2', '5', '10'], epoch=epoch, mix=(epoch == 1673259290 and rng.random() < 0.5))
        ops += ['n:%d' % k for k in (0, 1, 2, 3, 7)]
        lines.append('tracker %d %s %s' % (ordered, 'N' if ttl is None else ttl, ' '.join(ops)))
        meta.append((ordered, ttl, ops))
    for ordered, ttl, ops in big_histories(ctx.rng('tracker-big'), ctx.tier):
        lines.append('tracker %d %s %s' % (ordered, 'N' if ttl is None else ttl, ' '.join(ops)))
        meta.append((ordered, ttl, ops))
    for ordered, ttl, ops in expiry_histories(rng, pool2, 300 if ctx.tier == 'quick' else 20000):
        lines.append('tracker %d %s %s' % (ordered, ttl, ' '.join(ops)))
        meta.append((ordered, ttl, ops))
    outs = ctx.corr(lines, impl.step, 'tracker',
                    nontrivial=lambda l, o: 'u+[' in o)
    for (ordered, ttl, ops), o in zip(meta, outs):
        ctx.count('mode:%s ttl:%s' % ('ordered' if ordered else 'unordered', ttl))
        check_history(ctx, pid, ordered, ttl, ops, o, attrs_cache)


def run_reentrant_checks(ctx, pid):
    """Histories with a second subscriber that acts on the tracker from inside its callback (removes a companion,
    reports the vessel again, reports another vessel) or whose handler raises: implementation only.  Checked: the events
    seen by the first subscriber form CREATED UPDATED* DELETED per MMSI, the tracks after every operation are the
    MMSIs created and not deleted (C15, C12); after an accepted update or a cleanup no track whose age has reached
    the TTL is left (C13; not in the histories with a raising handler, where the library promises nothing)."""
    rng = ctx.rng('tracker-re')
    pool = make_messages(rng, [411, 422, 433, 444, 455], per=2)
    lines, meta = [], []
    for i in range(240 if ctx.tier == 'quick' else 8000):
        mode = ['pop', 'reseed', 'new', 'raise'][i % 4]
        ordered = rng.random() < 0.3
        ttl = rng.choice([3, 5, 10]) if mode != 'raise' or rng.random() < 0.5 else None
        ops, now = [], 0
        for _ in range(rng.choice([8, 16, 30])):
            r = rng.random()
            if r < 0.55:
                m = rng.choice(sorted(pool))
                ts = rng.choice(['N', str(now), str(max(0, now - rng.randint(0, 3)))])
                ops.append('u:%s:%s' % (rng.choice(pool[m]).hex(), ts))
            elif r < 0.65:
                ops.append('p:%d' % rng.choice(sorted(pool)))
            elif r < 0.75:
                ops.append('c')
            else:
                now += rng.choice([1, 2, 3, 5, 10])
                ops.append('t:%d' % now)
        lines.append('tracker_re %d %s %s %s' % (ordered, 'N' if ttl is None else ttl, mode, ' '.join(ops)))
        meta.append((mode, ordered, ttl, ops))
    outs = common.pmap(impl.step, lines)
    ctx.evaluations += len(lines)
    ctx.corr_commands['tracker_re(oracle only)'] = len(lines)
    for (mode, ordered, ttl, ops), line, o in zip(meta, lines, outs):
        ctx.count('reentrant:' + mode)
        inp = {'reentrant_op': line, 'mode': mode}
        if o.startswith('ERR'):
            ctx.fail('a tracker with a subscriber that acts from inside its callback raised', inp, 'no exception', o,
                     {'kind': 'reentrant-crash', 'mode': mode})
            continue
        alive = {}
        for item in o.split(' ; '):
            mm = re.match(r'^(\w)\[([^\]]*)\](\S*) \{([^}]*)\} stale=(\S+) nl=(\S+)$', item)
            if mm is None:
                ctx.fail('unparsable output', inp, '', item[:200], {'kind': 'harness'})
                break
            kind, evs, note, tracks, stale, nl = mm.groups()
            bad = None
            if pid == 'C14':
                if nl != '-':
                    ctx.fail('with a subscriber acting from inside its callback: ' + nl, dict(inp, at=item[:60]),
                             'the n most recently updated tracks', nl[:200], {'kind': 'reentrant-nlatest', 'mode': mode})
                    break
                continue
            for e in [x for x in evs.split(',') if x]:
                m_ = int(e[1:])
                a = alive.get(m_, False)
                if (e[0] == 'C' and a) or (e[0] in 'UD' and not a):
                    bad = 'event %s while the vessel is %s' % (e, 'tracked' if a else 'not tracked')
                    break
                alive[m_] = e[0] != 'D'
            if bad is None and pid in ('C15', 'C12') and \
                    sorted(m_ for m_, a in alive.items() if a) != sorted(int(x) for x in tracks.split()):
                bad = 'tracks %s but created-and-not-deleted %s' % (tracks, sorted(m_ for m_, a in alive.items() if a))
            if bad is None and pid == 'C13' and mode != 'raise' and stale != '-' and \
                    (kind == 'c' or (kind == 'u' and note == '')):
                bad = 'tracks whose age reached the TTL survive an expiry pass: ' + stale
            if bad and (pid != 'C13' or 'survive' in bad) and (pid == 'C13' or 'survive' not in bad):
                ctx.fail('with a subscriber acting from inside its callback: ' + bad, dict(inp, at=item[:60]), 'life cycle / expiry as ever',
                         item[:200], {'kind': 'reentrant', 'mode': mode})
                break


def replay_reentrant(ctx, pid, payload):
    inp = payload['failure']['input']
    o = impl.step(inp['reentrant_op'])
    print('observed:', o[:600])
    return None         # judged by regenerating the run (the generic replay)


def replay_history(ctx, pid, payload):
    inp = payload['failure']['input']
    line = 'tracker %d %s %s' % (inp['ordered'], 'N' if inp['ttl'] is None else inp['ttl'], ' '.join(inp['ops']))
    check_history(ctx, pid, inp['ordered'], inp['ttl'], inp['ops'], impl.step(line), {})
    return not ctx.failures
