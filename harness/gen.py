"""Input generators shared by the property checks (all randomness from the caller's PRNG)."""
import functools
import itertools

import attr

from . import impl

M = impl.M


# ------------------------------------------------------------------------------------------------
# class tables (introspected from the implementation: the generators follow the code's own types)
# ------------------------------------------------------------------------------------------------

@functools.lru_cache(None)
def concrete_classes():
    """name -> class for every concrete payload class reachable from MSG_CLASS"""
    out = {}

    def visit(c):
        if any('from_bitarray' in k.__dict__ for k in c.__mro__[:c.__mro__.index(M.Payload)]):
            for sub in M.__dict__.values():
                if isinstance(sub, type) and sub.__name__.startswith(c.__name__) and sub is not c \
                        and issubclass(sub, M.Payload):
                    out[sub.__name__] = sub
        else:
            out[c.__name__] = c

    for _i, c in M.MSG_CLASS.items():
        visit(c)
    return out


def fields_of(cls):
    return [(f.name, f.metadata['width'], f.metadata['d_type'], f.metadata['signed'],
             f.metadata['variable_length'], f) for f in attr.fields(cls)]


def total_width(cls):
    return sum(w for _, w, *_ in fields_of(cls))


TYPE_OF = {}          # class name -> (msg type id, discriminator bits {index: value})
for _t in range(1, 28):
    TYPE_OF['MessageType%d' % _t] = (_t, {})
TYPE_OF.update({
    'MessageType22Addressed': (22, {139: 1}), 'MessageType22Broadcast': (22, {139: 0}),
    'MessageType24PartA': (24, {38: 0, 39: 0}), 'MessageType24PartB': (24, {38: 0, 39: 1}),
})
for _t in (25, 26):
    for _a in (0, 1):
        for _s in (0, 1):
            TYPE_OF['MessageType%d%s%s' % (_t, 'Addressed' if _a else 'Broadcast',
                                           'Structured' if _s else 'Unstructured')] = (_t, {38: _a, 39: _s})
for _n in ('MessageType22', 'MessageType24', 'MessageType25', 'MessageType26'):
    TYPE_OF.pop(_n, None)


def bits_of_int(v, w):
    return format(v % (1 << w), '0%db' % w) if w else ''


def payload_bits(rng, cname, length=None, overrides=None):
    """a random payload (string of 0/1) that the *standard* assigns to layout `cname`:
    type id and discriminator bits set, everything else random; `overrides` = {offset: bitstring}"""
    cls = concrete_classes()[cname]
    n = total_width(cls) if length is None else length
    bits = [rng.choice('01') for _ in range(n)]
    t, disc = TYPE_OF[cname]
    for i, ch in enumerate(bits_of_int(t, 6)):
        if i < n:
            bits[i] = ch
    for i, v in disc.items():
        if i < n:
            bits[i] = str(v)
    for off, s in (overrides or {}).items():
        for j, ch in enumerate(s):
            if off + j < n:
                bits[off + j] = ch
    return ''.join(bits)


def field_offsets(cls):
    off, out = 0, []
    for name, w, d_type, signed, varlen, f in fields_of(cls):
        out.append((name, off, w, d_type, signed, varlen))
        off += w
    return out


def critical_tail_units(cls):
    """for a class whose last field is variable-length: numbers of characters / octets in that field for
    which the armored payload is 59, 60, 61, 119, 120, 121 or 179, 180, 181 characters long - right at the
    fragment boundaries of the encoder (a last fragment of exactly one character, an exactly full fragment)"""
    fo = field_offsets(cls)
    name, off, w, d_type, signed, varlen = fo[-1]
    if not varlen:
        return []
    unit = 6 if d_type is str else 8
    out = []
    for n in range(1, w // unit + 1):
        chars = (off + n * unit + 5) // 6
        if chars in (59, 60, 61, 119, 120, 121, 179, 180, 181):
            out.append(n)
    return out


def sentinel_patterns(w):
    pats = {'0' * w, '1' * w, '0' * (w - 1) + '1', '1' + '0' * (w - 1), '1' * (w - 1) + '0',
            '0' + '1' * (w - 1)}
    return sorted(p for p in pats if len(p) == w)


# ------------------------------------------------------------------------------------------------
# NMEA carrier rendering, written independently of pyais.encode
# ------------------------------------------------------------------------------------------------

def armor(bits):
    """bit string -> (armored payload str, fill bits)"""
    fill = (6 - len(bits) % 6) % 6
    padded = bits + '0' * fill
    out = []
    for i in range(0, len(padded), 6):
        v = int(padded[i:i + 6], 2)
        out.append(chr(v + 48 if v < 40 else v + 56))
    return ''.join(out), fill


def nmea_checksum(body):
    c = 0
    for b in body:
        c ^= b
    return c


def sentence(talker, frag_cnt, frag_num, seq, chan, payload, fill, delim='!', checksum=None):
    body = '%s,%s,%s,%s,%s,%s,%s' % (talker, frag_cnt, frag_num, seq, chan, payload, fill)
    c = nmea_checksum(body.encode('latin-1')) if checksum is None else checksum
    return ('%s%s*%02X' % (delim, body, c)).encode('latin-1')


def render(bits, talker='AIVDM', chan='A', seq=None, cuts=(), delim='!'):
    """sentences (bytes) carrying `bits`; `cuts` = sorted cut points in armored characters"""
    payload, fill = armor(bits)
    pts = [0] + list(cuts) + [len(payload)]
    parts = [payload[a:b] for a, b in zip(pts, pts[1:])]
    n = len(parts)
    if seq is None:
        seq = '1' if n > 1 else ''
    return [sentence(talker, n, i + 1, seq, chan, p, fill if i == n - 1 else 0, delim) for i, p in enumerate(parts)]


def render_ragged(bits, bitcuts, talker='AIVDM', chan='A', seq='1', delim='!'):
    """sentences carrying `bits` cut at arbitrary BIT positions: every fragment is padded to whole characters on its
    own and says so in its own fill-bit field (NMEA gives every sentence such a field, not only the last one)"""
    pts = [0] + list(bitcuts) + [len(bits)]
    parts = [bits[a:b] for a, b in zip(pts, pts[1:])]
    n = len(parts)
    out = []
    for i, pb in enumerate(parts):
        payload, fill = armor(pb)
        out.append(sentence(talker, n, i + 1, seq, chan, payload, fill, delim))
    return out


def tag_block(content):
    return b'\\' + content + b'*' + ('%X' % nmea_checksum(content)).encode() + b'\\'


def gatehouse(y=2020, mo=1, d=2, h=3, mi=4, s=5, ms=6, country=b'219', region=b'219000001', pss=b'219000002',
              online=b'1', cc=b'6D', tag=b'PGHP'):
    body = b'%s,1,%d,%d,%d,%d,%d,%d,%d,%s,%s,%s,%s,%s' % (tag, y, mo, d, h, mi, s, ms, country, region, pss, online, cc)
    return b'$' + body + b'*' + ('%02X' % nmea_checksum(body)).encode()


# ------------------------------------------------------------------------------------------------
# in-range field values (C02) per class, following the library's own field tables
# ------------------------------------------------------------------------------------------------

SIXBIT = '@ABCDEFGHIJKLMNOPQRSTUVWXYZ[\\]^_ !"#$%&\'()*+,-./0123456789:;<=>?'


def random_text(rng, maxlen):
    n = rng.randint(0, maxlen)
    if n == 0:
        return ''
    chars = SIXBIT[1:]          # no '@'
    s = ''.join(rng.choice(chars) for _ in range(n))
    s = s.strip()
    return s


def enum_members(conv):
    import enum
    c = conv if isinstance(conv, type) else getattr(conv, '__self__', None)
    if isinstance(c, type) and issubclass(c, enum.Enum):
        return c
    return None


def all_interleavings(seqs):
    """all interleavings of the given sequences (each keeps its internal order)"""
    seqs = [list(s) for s in seqs if s]
    if not seqs:
        yield []
        return
    for i, s in enumerate(seqs):
        rest = seqs[:i] + [s[1:]] + seqs[i + 1:]
        for tail in all_interleavings(rest):
            yield [s[0]] + tail


def random_interleaving(rng, seqs):
    seqs = [list(s) for s in seqs if s]
    out = []
    while seqs:
        i = rng.randrange(len(seqs))
        out.append(seqs[i].pop(0))
        if not seqs[i]:
            seqs.pop(i)
    return out
