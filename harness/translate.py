#!/venv/bin/python
"""Tie 1: regenerate the data part of the Lean model from the *current* pyais source.

Usage: translate.py <repo> <outdir>

Writes <outdir>/Tables.lean and <outdir>/Consts.lean (only when their content changed, so that an
unchanged /repo costs no rebuild).  Whatever cannot be translated faithfully is NOT guessed: it is
listed in `Generated.untranslatable` (a list of strings) and the obligation
`Generated.untranslatable = []` in the property files fails, which sends the check into its
failing-input search (DESIGN §4.1).

The translator imports pyais from <repo> in this interpreter (introspection of attrs field tables,
tabulation of enum / turn converters by calling the real functions on their whole raw domain) and
parses sources with `ast` (converter shapes, dispatch trees, constants buried in function bodies).
"""
import ast
import enum
import inspect
import json
import os
import sys
import textwrap
from decimal import Decimal

REPO = sys.argv[1] if len(sys.argv) > 1 else '/repo'
OUT = sys.argv[2] if len(sys.argv) > 2 else '/verif/lean/PyaisVerif/Generated'
sys.path.insert(0, REPO)
sys.dont_write_bytecode = True

UNTRANSLATABLE = []
UNTRANS_TAGGED = []


def untrans(what, tag=None):
    """tag: which part of the model the item belongs to (a property that does not depend on that part is
    not affected): codec | frag | bufs | enc | streamfilter | armor | cs | tag | track | talker | filter"""
    if tag is None:
        tag = 'codec'
        for key, t in (('MAX_FRAG_CNT', 'frag'), ('MAX_PAYLOAD_LEN', 'frag'), ('BUF_SIZE', 'bufs'),
                       ('ENCODE_MAX_LEN', 'enc'), ('STREAM_MIN_LEN', 'streamfilter'), ('SHOULD_PARSE', 'streamfilter'),
                       ('PAYLOAD_ARMOR', 'armor'), ('SIX_BIT_ENCODING', 'armor'), ('comm-state', 'cs'),
                       ('radio types', 'cs'), ('filter function', 'filter'), ('FIELD_CODES', 'tag'), ('AISTrack', 'track'), ('TalkerID', 'talker')):
            if key in what:
                tag = t
                break
    UNTRANSLATABLE.append('[%s] %s' % (tag, what))
    UNTRANS_TAGGED.append((tag, what))


def lean_str(s):
    out = '"'
    for ch in s:
        if ch == '"' or ch == '\\':
            out += '\\' + ch
        elif 32 <= ord(ch) < 127:
            out += ch
        else:
            out += '\\x%02x' % ord(ch) if ord(ch) < 256 else '?'
    return out + '"'


def lean_int(i):
    return str(i) if i >= 0 else '(%d)' % i


def lean_list(items):
    return '[' + ', '.join(items) + ']'


def micro_of_float(x):
    """exact micro-units of a float whose repr is a decimal with <= 6 places, else None"""
    d = Decimal(repr(float(x))) * 1000000
    if d != d.to_integral_value():
        return None
    return int(d)


def lean_val(v):
    """Python value -> Lean `Val` literal (or None if not representable)"""
    if v is None:
        return '.none'
    if isinstance(v, enum.Enum):
        val = v.value
        if isinstance(val, float):
            if val != int(val):
                return None
            val = int(val)
        if not isinstance(val, int):
            return None
        return '.enum %s %s' % (lean_str(type(v).__name__), lean_int(val))
    if isinstance(v, bool):
        return '.bool %s' % ('true' if v else 'false')
    if isinstance(v, int):
        return '.int %s' % lean_int(v)
    if isinstance(v, float):
        m = micro_of_float(v)
        if m is None:
            return None
        return '.flt %s' % lean_int(m)
    if isinstance(v, str):
        if not all(ord(c) < 128 for c in v):
            return None
        return '.str %s' % lean_list([str(ord(c)) for c in v])
    if isinstance(v, (bytes, bytearray)):
        return '.bytes %s' % lean_list([str(b) for b in v])
    return None


# ----------------------------------------------------------------------------------------------
# converters
# ----------------------------------------------------------------------------------------------

def num_literal(node):
    """integer value of a numeric literal such as 10.0 / 600000.0 / 10, else None"""
    if isinstance(node, ast.Constant) and isinstance(node.value, (int, float)) and not isinstance(node.value, bool):
        if float(node.value) == int(node.value) and node.value > 0:
            return int(node.value)
    return None


def is_arg(node, arg, allow_float=True):
    if isinstance(node, ast.Name) and node.id == arg:
        return True
    if allow_float and isinstance(node, ast.Call) and isinstance(node.func, ast.Name) and node.func.id == 'float' \
            and len(node.args) == 1 and not node.keywords and is_arg(node.args[0], arg, False):
        return True
    return False


def arith_shape(fn):
    """recognise the arithmetic converter shapes; returns a Lean `Conv` term or None"""
    try:
        src = textwrap.dedent(inspect.getsource(fn))
        tree = ast.parse(src)
    except (OSError, TypeError, SyntaxError):
        return None
    fd = tree.body[0]
    if not isinstance(fd, ast.FunctionDef) or len(fd.args.args) != 1:
        return None
    arg = fd.args.args[0].arg
    body = [s for s in fd.body if not (isinstance(s, ast.Expr) and isinstance(s.value, ast.Constant))]
    if len(body) != 1 or not isinstance(body[0], ast.Return):
        return None
    e = body[0].value
    # int(v)
    if isinstance(e, ast.Call) and isinstance(e.func, ast.Name) and e.func.id == 'int' and len(e.args) == 1 \
            and not e.keywords and is_arg(e.args[0], arg, False):
        return '.int'
    # v * K   |  float(v) * K   |  v / K
    if isinstance(e, ast.BinOp) and is_arg(e.left, arg):
        k = num_literal(e.right)
        if k is not None:
            if isinstance(e.op, ast.Mult):
                return '.mulK %d' % k
            if isinstance(e.op, ast.Div) and isinstance(e.right.value, float):
                return '.divK %d' % k
    # round(<arg> * K)  |  round(<arg> / K, P)
    if isinstance(e, ast.Call) and isinstance(e.func, ast.Name) and e.func.id == 'round' and not e.keywords:
        if len(e.args) in (1, 2) and isinstance(e.args[0], ast.BinOp) and is_arg(e.args[0].left, arg):
            inner = e.args[0]
            k = num_literal(inner.right)
            if k is not None and isinstance(inner.right.value, float):
                if isinstance(inner.op, ast.Mult) and len(e.args) == 1:
                    return '.mulRound %d' % k
                if isinstance(inner.op, ast.Div) and len(e.args) == 2:
                    p = e.args[1]
                    if isinstance(p, ast.Constant) and isinstance(p.value, int) and 0 <= p.value <= 6:
                        return '.divRound %d %d' % (k, p.value)
    return None


def probe_shape(fn, width, signed, d_type, direction):
    """A converter whose source is not one of the recognised one-line shapes (it delegates to a helper object, a
    closure, a table of scale factors ...) and whose raw domain is too large to tabulate: find the shape
    `Conv.int / mulK / divK / mulRound / divRound` that agrees with the real function on a large probe set - every raw
    value up to 18 bits, otherwise boundaries, a stride and 200 000 seeded random values, on the encode side the
    wire-representable values, off-grid floats, ints and decimal strings - and accept it only if it agrees on ALL of
    them (value and type, or exception type).  An *observation* like the buffer sizes (DESIGN §0.6): weaker than
    reading the source, recorded as probed in the evidence; the correspondence run still compares the result with
    the code afterwards."""
    import random
    rnd = random.Random(20260930 + width)
    lo, hi = (-(1 << (width - 1)), (1 << (width - 1)) - 1) if signed else (0, (1 << width) - 1)
    if width <= 18:
        raws = list(range(lo, hi + 1))
    else:
        raws = sorted(set([lo, lo + 1, -1, 0, 1, 2, 3, 5, 7, 9, 10, 11, 59, 60, 61, 599, 600, 601, hi - 1, hi]
                          + list(range(lo, hi, max(1, (hi - lo) // 50000)))
                          + [rnd.randint(lo, hi) for _ in range(200000)]))
        raws = [r for r in raws if lo <= r <= hi]

    def outcome(f, x):
        try:
            r = f(x)
            return (type(r).__name__, r)
        except Exception as e:  # noqa
            return ('raise', type(e).__name__)

    ks = (1, 10, 60, 100, 600, 1000, 6000, 10000, 60000, 600000, 6000000)
    cands = [('.int', lambda v: int(v))]
    for k in ks:
        cands.append(('.mulK %d' % k, lambda v, k=k: v * k))
        cands.append(('.mulK %d' % k, lambda v, k=k: float(v) * float(k)))
        cands.append(('.mulK %d' % k, lambda v, k=k: v * float(k)))
        cands.append(('.divK %d' % k, lambda v, k=k: v / float(k)))
        cands.append(('.mulRound %d' % k, lambda v, k=k: round(float(v) * float(k))))
        for p_ in range(0, 7):
            cands.append(('.divRound %d %d' % (k, p_), lambda v, k=k, p_=p_: round(v / float(k), p_)))
    if direction == 'to':
        probes = raws
    else:
        probes = []
        for k in ks:
            probes += [r / float(k) for r in raws[:: max(1, len(raws) // 20000)]]
        probes += [rnd.uniform(-200.0, 400.0) for _ in range(40000)] + [rnd.uniform(-1.0, 1.0) for _ in range(5000)]
        probes += list(range(-200, 1100)) + ['0', '1', '12', '12.5', '-3.25', '1e2', 'x', '']
    first = probes[:: max(1, len(probes) // 400)]
    for name, cand in cands:
        if all(outcome(fn, x) == outcome(cand, x) for x in first) and all(outcome(fn, x) == outcome(cand, x) for x in probes):
            PROBED.append('converter %s: shape %s identified by probing %d inputs' % (conv_name(fn), name, len(probes)))
            return name
    return None


_PROBE_CACHE = {}
CONV_TABLES = {}   # name -> list of (int key, lean val)
ENUM_TABLES = {}   # table name -> (enum class name, width)
ROT_TABLES = []    # names of tabulated non-enum decode-side converters on float fields (to_turn)
FROM_ROT_TABLES = []   # names of tabulated non-enum encode-side converters (from_turn)
ENUM_CLASSES = {}  # enum class name -> class


def conv_name(fn):
    if inspect.isclass(fn):
        return fn.__name__
    if inspect.ismethod(fn) and inspect.isclass(fn.__self__):
        return '%s_%s' % (fn.__self__.__name__, fn.__name__)
    return getattr(fn, '__name__', repr(fn))


def tabulate(fn, keys, as_float, tag):
    """tabulate a converter over integer keys by calling the real function"""
    name = '%s_%s' % (conv_name(fn), tag)
    if name in CONV_TABLES:
        return name
    rows = []
    for k in keys:
        try:
            r = fn(float(k)) if as_float else fn(k)
        except Exception as e:  # noqa
            untrans('converter %s raises %s on %r' % (name, type(e).__name__, k))
            continue
        lv = lean_val(r)
        if lv is None:
            untrans('converter %s returns unrepresentable %r on %r' % (name, r, k))
            continue
        rows.append((k, lv))
    CONV_TABLES[name] = rows
    return name


def raw_domain(width, signed):
    if signed:
        return range(-(1 << (width - 1)), 1 << (width - 1))
    return range(0, 1 << width)


def translate_conv(fn, field_name, cls_name, width, signed, d_type, direction, partner=None):
    """direction: 'to' (after decoding, domain = raw wire values), 'from' (before encoding),
    'attr' (attrs-level converter, applied on both paths)"""
    if fn is None:
        return '.none'
    shape = None
    if inspect.isfunction(fn):
        shape = arith_shape(fn)
    if shape is not None:
        return shape
    is_enum = (inspect.isclass(fn) and issubclass(fn, enum.Enum)) or \
              (inspect.ismethod(fn) and inspect.isclass(fn.__self__) and issubclass(fn.__self__, enum.Enum))
    if inspect.isfunction(fn) and not is_enum:
        key = (fn, width, signed, direction)
        if key not in _PROBE_CACHE:
            _PROBE_CACHE[key] = probe_shape(fn, width, signed, d_type, direction)
        if _PROBE_CACHE[key] is not None:
            return _PROBE_CACHE[key]
    if width > 12:
        untrans('converter %s of %s.%s: not an arithmetic shape and domain too large to tabulate'
                % (conv_name(fn), cls_name, field_name))
        return '.none'
    if is_enum or direction in ('to', 'attr'):
        # domain: every raw value of the field (for `from`/`attr` on the encode side the same
        # table is used: in-range inputs are exactly the raw values)
        name = tabulate(fn, raw_domain(width, signed), d_type is float and not is_enum,
                        'w%d%s' % (width, 's' if signed else 'u'))
        if is_enum:
            ecls = fn if inspect.isclass(fn) else fn.__self__
            ENUM_TABLES[name] = (ecls.__name__, width)
            ENUM_CLASSES[ecls.__name__] = ecls
        elif name not in ROT_TABLES:
            ROT_TABLES.append(name)
    else:
        # encode-side non-enum converter (from_turn): every integral value its decode-side partner can
        # produce on the raw domain (the wire-representable values) plus a window of small integers
        keys = set(range(-130, 131))
        if partner is not None:
            for raw in raw_domain(width, signed):
                try:
                    v = partner(float(raw)) if d_type is float else partner(raw)
                    v = v.value if isinstance(v, enum.Enum) else v
                    if float(v) == int(v):
                        keys.add(int(v))
                except Exception:  # noqa
                    pass
        name = tabulate(fn, sorted(keys), d_type is float, 'enc')
        if name not in FROM_ROT_TABLES:
            FROM_ROT_TABLES.append(name)
    return '.table %s' % lean_str(name)


# ----------------------------------------------------------------------------------------------
# dispatch trees
# ----------------------------------------------------------------------------------------------

class TreeError(Exception):
    pass


def translate_tree(fn, side, exc_names):
    """side = 'decode' (from_bitarray) or 'create'."""
    src = textwrap.dedent(inspect.getsource(fn))
    fd = ast.parse(src).body[0]
    env = {}

    def get_int_call(node):
        if isinstance(node, ast.Call) and isinstance(node.func, ast.Name) and node.func.id == 'get_int' \
                and len(node.args) == 3 and not node.keywords \
                and isinstance(node.args[0], ast.Name) \
                and all(isinstance(a, ast.Constant) and isinstance(a.value, int) for a in node.args[1:]):
            return ('bits', node.args[1].value, node.args[2].value)
        return None

    def kw_get_call(node):
        # kwargs.get('k', False|0)
        if isinstance(node, ast.Call) and isinstance(node.func, ast.Attribute) and node.func.attr == 'get' \
                and isinstance(node.func.value, ast.Name) and node.func.value.id == 'kwargs' \
                and len(node.args) == 2 and isinstance(node.args[0], ast.Constant) \
                and isinstance(node.args[1], ast.Constant):
            return ('kw', node.args[0].value, node.args[1].value)
        return None

    def value_of(node):
        if isinstance(node, ast.Name) and node.id in env:
            return env[node.id]
        if side == 'decode':
            g = get_int_call(node)
            if g:
                return g
        else:
            k = kw_get_call(node)
            if k:
                return k
            if isinstance(node, ast.Call) and isinstance(node.func, ast.Name) and node.func.id == 'int' \
                    and len(node.args) == 1:
                k = kw_get_call(node.args[0])
                if k and isinstance(k[2], int):
                    return ('kwint', k[1], int(k[2]))
        raise TreeError('unsupported expression %s' % ast.dump(node))

    def test_of(node):
        if isinstance(node, ast.Compare) and len(node.ops) == 1 and isinstance(node.ops[0], ast.Eq) \
                and isinstance(node.comparators[0], ast.Constant) and isinstance(node.comparators[0].value, int):
            v = value_of(node.left)
            c = node.comparators[0].value
            if v[0] == 'bits':
                return '.bitsEq %d %d %s' % (v[1], v[2], lean_int(c))
            if v[0] == 'kwint':
                return '.kwIntEq %s %s %s' % (lean_str(v[1]), lean_int(v[2]), lean_int(c))
            raise TreeError('unsupported comparison')
        v = value_of(node)
        if v[0] == 'bits':
            return '.bits %d %d' % (v[1], v[2])
        if v[0] == 'kw':
            if v[2] not in (False, 0, None):
                raise TreeError('kwargs.get default is truthy')
            return '.kw %s' % lean_str(v[1])
        raise TreeError('unsupported test')

    def block(stmts):
        stmts = [s for s in stmts if not (isinstance(s, ast.Expr) and isinstance(s.value, ast.Constant))]
        if not stmts:
            raise TreeError('fall through')
        s = stmts[0]
        if isinstance(s, (ast.Assign, ast.AnnAssign)):
            target = s.targets[0] if isinstance(s, ast.Assign) else s.target
            if not isinstance(target, ast.Name):
                raise TreeError('assignment target')
            env[target.id] = value_of(s.value)
            return block(stmts[1:])
        if isinstance(s, ast.Return):
            c = s.value
            if isinstance(c, ast.Call) and isinstance(c.func, ast.Attribute) and isinstance(c.func.value, ast.Name):
                if side == 'decode' and c.func.attr == 'from_bitarray' and len(c.args) == 1 \
                        and isinstance(c.args[0], ast.Name) and not c.keywords:
                    return '(.leaf %s)' % lean_str(c.func.value.id)
                if side == 'create' and c.func.attr == 'create' and not c.args and len(c.keywords) == 1 \
                        and c.keywords[0].arg is None:
                    return '(.leaf %s)' % lean_str(c.func.value.id)
            raise TreeError('unsupported return')
        if isinstance(s, ast.Raise):
            c = s.exc
            name = c.func.id if isinstance(c, ast.Call) and isinstance(c.func, ast.Name) else \
                (c.id if isinstance(c, ast.Name) else None)
            if name in exc_names:
                return '(.raise %s)' % exc_names[name]
            raise TreeError('unsupported raise')
        if isinstance(s, ast.If):
            t = test_of(s.test)
            thn = block(s.body)
            els = block(s.orelse if s.orelse else stmts[1:])
            return '(.ite (%s) %s %s)' % (t, thn, els)
        raise TreeError('unsupported statement %s' % type(s).__name__)

    return block(fd.body)


# ----------------------------------------------------------------------------------------------
# dispatch trees by exploration (fallback when the source is not of the recognised shape)
# ----------------------------------------------------------------------------------------------

PROBED = []       # dispatchers whose tree was obtained by exploration instead of from the syntax


class _Leaf(Exception):
    pass


class _Need(Exception):
    pass


def own_method(M, cls, attrname):
    """the definition of `attrname` that `cls` uses if it is not Payload's own (a dispatcher may inherit its
    from_bitarray / create from a base class it shares with other dispatchers); None otherwise"""
    for k in cls.__mro__:
        if k is M.Payload:
            return None
        if attrname in k.__dict__:
            return k.__dict__[attrname]
    return None


class _Opaque:
    """stands in for the bit array: it can only be handed on (to get_int / from_bitarray)"""


def probe_decode_tree(M, cls, exc_names):
    """Explore `cls.from_bitarray` exhaustively: `get_int` (as imported by pyais.messages) answers from
    a script and asks for a branch when the script is exhausted; the layouts' `from_bitarray` reports
    which class was chosen.  Complete for dispatchers that look at the payload through get_int only
    (anything else touches the opaque stand-in and fails).  Returns a Lean `Tree` term."""
    fn = own_method(M, cls, 'from_bitarray').__func__
    real_get_int, real_from = M.get_int, M.Payload.__dict__['from_bitarray']

    def run(script):
        idx = [0]

        def fake_get_int(data, lo, hi, signed=False):
            if not isinstance(data, _Opaque) or signed:
                raise TreeError('get_int called on something else than the payload / signed')
            i = idx[0]
            idx[0] += 1
            if i < len(script):
                if script[i][:2] != (lo, hi):
                    raise TreeError('non-deterministic read order')
                return script[i][2]
            raise _Need((lo, hi))

        def fake_from(c, bit_arr):
            raise _Leaf(c.__name__)

        M.get_int = fake_get_int
        M.Payload.from_bitarray = classmethod(fake_from)
        try:
            fn(cls, _Opaque())
            raise TreeError('dispatcher returned without choosing a layout')
        except _Leaf as l:
            return '(.leaf %s)' % lean_str(str(l))
        except _Need as n:
            lo, hi = n.args[0]
            w = hi - lo
            if not (1 <= w <= 4):
                raise TreeError('discriminator of %d bits' % w)
            br = {v: run(script + [(lo, hi, v)]) for v in range(1 << w)}
            if w == 1:
                return '(.ite (.bits %d %d) %s %s)' % (lo, hi, br[1], br[0])
            other = br[(1 << w) - 1]
            t = other
            for v in reversed(range(1 << w)):
                if br[v] != other:
                    t = '(.ite (.bitsEq %d %d %s) %s %s)' % (lo, hi, lean_int(v), br[v], t)
            return t
        except TreeError:
            raise
        except Exception as e:  # noqa
            n = type(e).__name__
            if n in exc_names:
                return '(.raise %s)' % exc_names[n]
            raise TreeError('dispatcher raised %s' % n)
        finally:
            M.get_int = real_get_int
            M.Payload.from_bitarray = real_from

    return run([])


def probe_create_tree(M, cls, keys, exc_names):
    """Explore `cls.create(**kwargs)` over the discriminator keywords `keys` = [(name, width)] (the
    fields that sit at the bit positions the decode side looks at): each absent, or one of the values
    of its width.  One-bit keywords are read as truth values, wider ones as `int(kwargs.get(k, d))`
    (the default d is the value that behaves like absence)."""
    fn = own_method(M, cls, 'create').__func__
    real_create = M.Payload.__dict__['create']

    def outcome(kw):
        def fake_create(c, **kwargs):
            raise _Leaf(c.__name__)
        M.Payload.create = classmethod(fake_create)
        try:
            fn(cls, **kw)
            raise TreeError('create returned without choosing a layout')
        except _Leaf as l:
            return '(.leaf %s)' % lean_str(str(l))
        except TreeError:
            raise
        except Exception as e:  # noqa
            n = type(e).__name__
            if n in exc_names:
                return '(.raise %s)' % exc_names[n]
            raise TreeError('create raised %s' % n)
        finally:
            M.Payload.create = real_create

    def build(rest, kw):
        if not rest:
            return outcome(kw)
        (k, w), tail = rest[0], rest[1:]
        absent = build(tail, kw)
        if w == 1:
            t1, t0 = build(tail, dict(kw, **{k: True})), build(tail, dict(kw, **{k: False}))
            if absent != t0 or build(tail, dict(kw, **{k: 1})) != t1 or build(tail, dict(kw, **{k: 0})) != t0:
                raise TreeError('keyword %s is not read as a truth value with a false default' % k)
            return t0 if t0 == t1 else '(.ite (.kw %s) %s %s)' % (lean_str(k), t1, t0)
        br = {v: build(tail, dict(kw, **{k: v})) for v in range(1 << w)}
        ds = [v for v in range(1 << w) if br[v] == absent]
        if not ds:
            raise TreeError('absence of keyword %s behaves like none of its values' % k)
        d = ds[0]
        other = br[(1 << w) - 1]
        t = other
        for v in reversed(range(1 << w)):
            if br[v] != other:
                t = '(.ite (.kwIntEq %s %s %s) %s %s)' % (lean_str(k), lean_int(d), lean_int(v), br[v], t)
        return t

    return build(list(keys), {})


# ----------------------------------------------------------------------------------------------
# constants buried in function bodies
# ----------------------------------------------------------------------------------------------

def find_in_source(path, predicate):
    tree = ast.parse(open(path).read())
    res = []
    for node in ast.walk(tree):
        r = predicate(node)
        if r is not None:
            res.append(r)
    return res


def discriminator_keys(M, name, dec_trees):
    """[(keyword, width)] for the create side of dispatcher `name`: the fields of its layouts that sit
    at the bit ranges its decode tree reads"""
    import re
    import attr
    tree = dict(dec_trees).get(name)
    if tree is None:
        raise TreeError('no decode tree to take the discriminator fields from')
    reads = sorted(set((int(a), int(b)) for a, b in re.findall(r'\.bits(?:Eq)? (\d+) (\d+)', tree)))
    leaves = sorted(set(re.findall(r'\.leaf "([A-Za-z0-9_]+)"', tree)))
    keys = []
    for lo, hi in reads:
        names = set()
        for leaf in leaves:
            off = 0
            for f in attr.fields(getattr(M, leaf)):
                w = f.metadata['width']
                if off == lo and off + w == hi:
                    names.add(f.name)
                off += w
        if len(names) != 1:
            raise TreeError('bits %d..%d are not one field of the layouts' % (lo, hi))
        keys.append((names.pop(), hi - lo))
    return keys


def main():
    import attr
    import pyais
    import pyais.messages as M
    import pyais.util as U
    import pyais.stream as S
    import pyais.encode as E
    import pyais.tracker as T
    import dataclasses

    assert os.path.realpath(pyais.__file__).startswith(os.path.realpath(REPO)), \
        'pyais imported from %s, expected %s' % (pyais.__file__, REPO)

    dtype_name = {int: '.int', bool: '.bool', float: '.float', str: '.str', bytes: '.bytes'}
    exc_names = {
        'InvalidNMEAMessageException': '.invalidNMEAMessage', 'InvalidNMEAChecksum': '.invalidNMEAChecksum',
        'UnknownMessageException': '.unknownMessage', 'MissingMultipartMessageException': '.missingMultipart',
        'TooManyMessagesException': '.tooManyMessages', 'UnknownPartNoException': '.unknownPartNo',
        'InvalidDataTypeException': '.invalidDataType',
        'NonPrintableCharacterException': '.nonPrintableCharacter',
        'MissingPayloadException': '.missingPayload', 'ValueError': '.valueError',
    }

    # --- concrete classes and dispatchers reachable from MSG_CLASS -----------------------------
    concrete = {}      # name -> class
    dispatch = {}      # name -> class
    order = []

    def visit(cls):
        if cls.__name__ in concrete or cls.__name__ in dispatch:
            return
        is_dispatcher = own_method(M, cls, 'from_bitarray') is not None
        if is_dispatcher:
            dispatch[cls.__name__] = cls
        else:
            concrete[cls.__name__] = cls
            order.append(cls.__name__)

    for _id, cls in M.MSG_CLASS.items():
        visit(cls)

    dec_trees, cre_trees = [], []
    for name, cls in dispatch.items():
        for side, attrname, out in (('decode', 'from_bitarray', dec_trees), ('create', 'create', cre_trees)):
            fn = own_method(M, cls, attrname)
            if fn is None:
                untrans('%s.%s not defined on the dispatcher itself' % (name, attrname))
                continue
            fn = fn.__func__ if isinstance(fn, (classmethod, staticmethod)) else fn
            try:
                if os.environ.get('VERIF_FORCE_EXPLORE'):
                    raise TreeError('forced')
                t = translate_tree(fn, side, exc_names)
            except (TreeError, OSError, SyntaxError, IndexError, AttributeError) as e:
                # not of the recognised syntactic shape: explore the function instead
                try:
                    if side == 'decode':
                        t = probe_decode_tree(M, cls, exc_names)
                    else:
                        t = probe_create_tree(M, cls, discriminator_keys(M, name, dec_trees), exc_names)
                    PROBED.append('%s.%s (%s)' % (name, attrname, e))
                except Exception as e2:  # noqa
                    untrans('%s.%s: %s; exploration: %s' % (name, attrname, e, e2))
                    continue
            out.append((name, t))
            # leaves are classes of the messages module
            for leaf in sorted(set(__import__('re').findall(r'\.leaf "([A-Za-z0-9_]+)"', t))):
                lc = getattr(M, leaf, None)
                if lc is None:
                    untrans('%s.%s refers to unknown class %s' % (name, attrname, leaf))
                else:
                    visit(lc)

    class_defs = []
    for name in order:
        cls = concrete[name]
        rows = []
        try:
            fields = attr.fields(cls)
        except Exception as e:  # noqa
            untrans('attr.fields(%s): %s' % (name, e))
            continue
        for f in fields:
            md = f.metadata
            try:
                width, d_type = md['width'], md['d_type']
                if d_type not in dtype_name:
                    untrans('%s.%s: d_type %r' % (name, f.name, d_type))
                    continue
                signed, varlen = bool(md['signed']), bool(md['variable_length'])
                dflt = lean_val(md['default'])
                if dflt is None:
                    untrans('%s.%s: default %r' % (name, f.name, md['default']))
                    dflt = '.none'
                fc = translate_conv(md['from_converter'], f.name, name, width, signed, d_type, 'from', md['to_converter'])
                tc = translate_conv(md['to_converter'], f.name, name, width, signed, d_type, 'to')
                ac = translate_conv(f.converter, f.name, name, width, signed, d_type, 'attr')
            except KeyError as e:
                untrans('%s.%s: metadata key %s missing' % (name, f.name, e))
                continue
            rows.append('  { name := %s, width := %d, dtype := %s, signed := %s, varlen := %s, default := %s,\n'
                        '    fromConv := %s, toConv := %s, attrConv := %s }'
                        % (lean_str(f.name), width, dtype_name[d_type], str(signed).lower(), str(varlen).lower(),
                           dflt, fc, tc, ac))
        class_defs.append((name, rows))

    L = []
    L.append('import PyaisVerif.Model.Codec')
    L.append('/-! GENERATED by harness/translate.py from the pyais source tree — do not edit. -/')
    L.append('set_option maxRecDepth 100000')
    L.append('namespace Generated')
    L.append('open Model')
    L.append('')
    for name, rows in class_defs:
        L.append('def T_%s : List Field := [' % name)
        L.append(',\n'.join(rows))
        L.append(']')
        L.append('')
    L.append('def classes : List (String × List Field) := [')
    L.append(',\n'.join('  (%s, T_%s)' % (lean_str(n), n) for n, _ in class_defs))
    L.append(']')
    L.append('')
    L.append('def msgClass : List (Nat × String) := [')
    L.append(',\n'.join('  (%d, %s)' % (i, lean_str(c.__name__)) for i, c in M.MSG_CLASS.items()))
    L.append(']')
    L.append('')
    L.append('def decodeTrees : List (String × Tree) := [')
    L.append(',\n'.join('  (%s, %s)' % (lean_str(n), t) for n, t in dec_trees))
    L.append(']')
    L.append('')
    L.append('def createTrees : List (String × Tree) := [')
    L.append(',\n'.join('  (%s, %s)' % (lean_str(n), t) for n, t in cre_trees))
    L.append(']')
    L.append('')
    for name, rows in CONV_TABLES.items():
        keys = [k for k, _ in rows]
        if len(rows) > 300 and keys == list(range(keys[0], keys[0] + len(keys))) \
                and all(v.startswith('.int ') for _, v in rows):
            # compact form for big all-integer tables over consecutive keys (fast to elaborate)
            L.append('def CT_%s : List (Int × Val) := mkIntTable %s (' % (name, lean_int(keys[0])))
            vals = [v[len('.int '):].strip('()') for _, v in rows]
            # chunks of 50 joined by ++ : long list literals elaborate super-linearly
            chunks = ['  ([' + ', '.join(vals[i:i + 50]) + '] : List Int)' for i in range(0, len(vals), 50)]
            L.append(' ++\n'.join(chunks))
            L.append(')')
        else:
            L.append('def CT_%s : List (Int × Val) := [' % name)
            L.append(',\n'.join('  (%s, %s)' % (lean_int(k), v) for k, v in rows))
            L.append(']')
        L.append('')
    L.append('def convTables : List (String × List (Int × Val)) := [')
    L.append(',\n'.join('  (%s, CT_%s)' % (lean_str(n), n) for n in CONV_TABLES))
    L.append(']')
    L.append('')
    L.append('/-- tabulated enum converters: table name ↦ (enum class, width of the raw domain) -/')
    L.append('def enumTables : List (String × String × Nat) := [')
    L.append(',\n'.join('  (%s, %s, %d)' % (lean_str(n), lean_str(c), w) for n, (c, w) in ENUM_TABLES.items()))
    L.append(']')
    L.append('')
    L.append('/-- member values of the enum classes used by converters -/')
    L.append('def enumMembers : List (String × List Int) := [')
    rows = []
    for n, c in ENUM_CLASSES.items():
        try:
            vals = [int(m.value) for m in c]
        except Exception as e:  # noqa
            untrans('enum %s: %s' % (n, e))
            vals = []
        rows.append('  (%s, %s)' % (lean_str(n), lean_list([lean_int(v) for v in vals])))
    L.append(',\n'.join(rows))
    L.append(']')
    L.append('')
    L.append('/-- tabulated non-enum decode-side converters (rate of turn) -/')
    L.append('def rotTables : List String := %s' % lean_list([lean_str(n) for n in ROT_TABLES]))
    L.append('')
    L.append('/-- tabulated non-enum encode-side converters (from_turn) -/')
    L.append('def fromRotTables : List String := %s' % lean_list([lean_str(n) for n in FROM_ROT_TABLES]))
    L.append('')
    L.append('def env : Env := { classes := classes, msgClass := msgClass, decodeTrees := decodeTrees,')
    L.append('                   createTrees := createTrees, convTables := convTables }')
    L.append('')
    L.append('end Generated')
    tables_src = '\n'.join(L) + '\n'

    # --- constants --------------------------------------------------------------------------
    C = []
    C.append('import PyaisVerif.Model.CommState')
    C.append('/-! GENERATED by harness/translate.py from the pyais source tree — do not edit. -/')
    C.append('namespace Generated')
    C.append('open Model')
    C.append('')

    def const_nat(name, getter):
        try:
            v = getter()
            if not isinstance(v, int) or isinstance(v, bool) or v < 0:
                raise ValueError('not a natural number: %r' % (v,))
            C.append('def %s : Nat := %d' % (name, v))
        except Exception as e:  # noqa
            untrans('constant %s: %s' % (name, e))
            C.append('def %s : Nat := 0' % name)

    const_nat('MAX_FRAG_CNT', lambda: M.MAX_FRAG_CNT)
    const_nat('MAX_PAYLOAD_LEN', lambda: M.MAX_PAYLOAD_LEN)

    def buffer_sizes(path):
        def pred(node):
            if isinstance(node, ast.Call) and isinstance(node.func, ast.Name) and node.func.id == 'max' \
                    and len(node.args) == 2 and isinstance(node.args[1], ast.Constant) \
                    and isinstance(node.args[1].value, int):
                return node.args[1].value
            return None
        return find_in_source(path, pred)

    def single(vals, what):
        vals = list(vals)
        if len(set(vals)) != 1:
            raise ValueError('%s: expected exactly one value, found %r' % (what, vals))
        return vals[0]

    FRAG = b'!AIVDM,2,1,4,A,55?MbV02;H;s<HtKR20EHE:0@T4@Dn2222222216L961O5Gf0NSQEp6ClRp8,0*1C'
    SINGLE = b'!AIVDM,1,1,,A,15M67FC000G?ufbE`FepT@3n00Sa,0*5C'

    def lists_in(mapping):
        out = []
        for v in mapping.values():
            if isinstance(v, dict):
                out += [len(x) for x in v.values() if isinstance(x, list)]
        return out

    def observed_stream_buffer():
        """length of the reassembly list the stream loop allocates for a fragment `1 of 2` (looked up in the
        suspended generator's local variables)"""
        it = iter(S.IterMessages([FRAG, SINGLE]))
        next(it)
        frame = it.gi_frame
        return single(lists_in(frame.f_locals), 'observed stream buffer')

    def observed_queue_buffer():
        import pyais.queue as Qm
        q = Qm.NMEAQueue()
        q.put_line(FRAG)
        return single(lists_in(vars(q)), 'observed queue buffer')

    def buffer_size(path, observe, what):
        vals = buffer_sizes(path)
        if len(set(vals)) == 1:
            return vals[0]
        v = observe()          # the source is not of the recognised shape: look at the running code
        PROBED.append('%s (max(count, N) not found in %s)' % (what, os.path.basename(path)))
        return v

    const_nat('STREAM_BUF_SIZE', lambda: buffer_size(os.path.join(REPO, 'pyais/stream.py'), observed_stream_buffer, 'stream buffer size'))
    const_nat('QUEUE_BUF_SIZE', lambda: buffer_size(os.path.join(REPO, 'pyais/queue.py'), observed_queue_buffer, 'queue buffer size'))

    def assign_in_func(path, func, var):
        tree = ast.parse(open(path).read())
        for node in ast.walk(tree):
            if isinstance(node, ast.FunctionDef) and node.name == func:
                vals = []
                for n in ast.walk(node):
                    if isinstance(n, ast.Assign) and len(n.targets) == 1 and isinstance(n.targets[0], ast.Name) \
                            and n.targets[0].id == var and isinstance(n.value, ast.Constant):
                        vals.append(n.value.value)
                return single(vals, '%s in %s' % (var, func))
        raise ValueError('function %s not found' % func)

    def observed_encode_max_len():
        """`max_len = N` not found in ais_to_nmea_0183: the fragment size is *observed* - payloads of 1 … 200 characters
        are cut into pieces of the same size N (all but the last), a payload of at most N characters stays in one
        sentence, one of N + 1 does not"""
        import pyais.encode as E
        sizes, single_max = set(), 0
        for n in range(1, 201):
            out = E.ais_to_nmea_0183('A' * n, 'AIVDM', 'A', 0)
            pls = [o.split(',')[5] for o in out]
            if ''.join(pls) != 'A' * n:
                raise ValueError('observation: the fragments of a %d-character payload do not concatenate to it' % n)
            if len(pls) == 1:
                single_max = max(single_max, n)
            for p_ in pls[:-1]:
                sizes.add(len(p_))
            if len(pls) > 1 and not (0 < len(pls[-1]) <= max(sizes)):
                raise ValueError('observation: last fragment of a %d-character payload has %d characters' % (n, len(pls[-1])))
        if len(sizes) != 1 or single_max != next(iter(sizes)):
            raise ValueError('observation: fragment sizes %r, longest single sentence %d' % (sorted(sizes), single_max))
        PROBED.append('ENCODE_MAX_LEN (max_len = N not found in ais_to_nmea_0183; observed on payloads of 1 … 200 characters)')
        return next(iter(sizes))

    def encode_max_len():
        try:
            return assign_in_func(os.path.join(REPO, 'pyais/encode.py'), 'ais_to_nmea_0183', 'max_len')
        except Exception:  # noqa
            return observed_encode_max_len()

    const_nat('ENCODE_MAX_LEN', encode_max_len)

    def min_line_len():
        def pred(node):
            if isinstance(node, ast.Compare) and len(node.ops) == 1 and isinstance(node.ops[0], ast.LtE) \
                    and isinstance(node.left, ast.Call) and isinstance(node.left.func, ast.Name) \
                    and node.left.func.id == 'len' and isinstance(node.comparators[0], ast.Constant):
                return node.comparators[0].value
            return None
        vals = find_in_source(os.path.join(REPO, 'pyais/stream.py'), pred)
        if len(set(vals)) == 1:
            return vals[0]
        # the source is not of the recognised shape (e.g. the test is written the other way round): look at the
        # running code - which lengths of a line that starts with '!' does the pre-filter of the stream readers let
        # through?  It must be a threshold.
        passed = sorted(len(l) for l in S.ByteStream([b'!' + b'x' * (n - 1) for n in range(1, 80)])._iter_messages())
        if not passed or passed != list(range(passed[0], 80)):
            raise ValueError('the length filter of Stream._iter_messages is not a threshold: %r' % (passed[:10],))
        PROBED.append('stream minimum line length (len(line) <= N not found in stream.py)')
        return passed[0] - 1

    const_nat('STREAM_MIN_LEN', min_line_len)

    def nat_list(name, getter):
        try:
            v = list(getter())
            if not all(isinstance(x, int) and x >= 0 for x in v):
                raise ValueError('not naturals: %r' % (v,))
            C.append('def %s : List Nat := %s' % (name, lean_list([str(x) for x in v])))
        except Exception as e:  # noqa
            untrans('constant %s: %s' % (name, e))
            C.append('def %s : List Nat := []' % name)

    nat_list('PAYLOAD_ARMOR', lambda: [ord(U.PAYLOAD_ARMOR[i]) for i in range(64)]
             if sorted(U.PAYLOAD_ARMOR) == list(range(64)) else (_ for _ in ()).throw(ValueError('keys')))
    # SIX_BIT_ENCODING as a list of (char code, value)
    try:
        pairs = sorted((ord(k), v) for k, v in U.SIX_BIT_ENCODING.items())
        C.append('def SIX_BIT_ENCODING : List (Nat × Nat) := %s'
                 % lean_list(['(%d, %d)' % p for p in pairs]))
    except Exception as e:  # noqa
        untrans('constant SIX_BIT_ENCODING: %s' % e)
        C.append('def SIX_BIT_ENCODING : List (Nat × Nat) := []')
    nat_list('SHOULD_PARSE_FIRST', lambda: sorted([S.DOLLAR_SIGN, S.EXCLAMATION_POINT, S.BACKSLASH]))

    try:
        mix = M.CommunicationStateMixin
        C.append('def csConsts : CSConsts := { syncMask := %d, timeoutMask := %d, msgMask := %d, slotIncMask := %d, '
                 'maxCommState := %d, sotdmaTypes := %s, sotdmaItdmaTypes := %s }'
                 % (U.SYNC_MASK, U.TIMEOUT_MASK, U.MSG_MASK, U.SLOT_INCREMENT_MASK,
                    mix.MAX_COMM_STATE_VALUE, lean_list([str(x) for x in mix.SOTDMA_TYPES]),
                    lean_list([str(x) for x in mix.SOTDMA_ITDMA_TYPES])))
    except Exception as e:  # noqa
        untrans('comm-state constants: %s' % e)
        C.append('def csConsts : CSConsts := default')

    # message types that carry a radio field (by class table)
    try:
        radio_types = []
        for i, cls in M.MSG_CLASS.items():
            names = set()
            if cls.__name__ in concrete:
                names = {f.name for f in attr.fields(cls)}
            else:
                # all leaves of the dispatcher
                for n, t in dec_trees:
                    if n == cls.__name__:
                        for leaf in sorted(set(__import__('re').findall(r'\.leaf "([A-Za-z0-9_]+)"', t))):
                            names |= {f.name for f in attr.fields(getattr(M, leaf))}
            if 'radio' in names and i != 0:
                radio_types.append(i)
        C.append('def radioTypes : List Nat := %s' % lean_list([str(x) for x in radio_types]))
    except Exception as e:  # noqa
        untrans('radio types: %s' % e)
        C.append('def radioTypes : List Nat := []')

    # tag block field codes (name, code char)
    try:
        fc = M.TagBlock.FIELD_CODES
        C.append('def TAG_FIELD_CODES : List (String × Nat) := %s'
                 % lean_list(['(%s, %d)' % (lean_str(k), ord(v)) for k, v in fc.items()]))
    except Exception as e:  # noqa
        untrans('TagBlock.FIELD_CODES: %s' % e)
        C.append('def TAG_FIELD_CODES : List (String × Nat) := []')

    # tracker fields
    try:
        C.append('def TRACK_FIELDS : List String := %s'
                 % lean_list([lean_str(f.name) for f in dataclasses.fields(T.AISTrack)]))
    except Exception as e:  # noqa
        untrans('AISTrack fields: %s' % e)
        C.append('def TRACK_FIELDS : List String := []')

    # talker ids
    try:
        from pyais.constants import TalkerID
        C.append('def TALKER_IDS : List String := %s'
                 % lean_list([lean_str(t.value) for t in TalkerID if t.value != 'UNDEFINED']))
    except Exception as e:  # noqa
        untrans('TalkerID: %s' % e)
        C.append('def TALKER_IDS : List String := []')

    C.append('')
    C.append('/-- constructs of the source the translator could not translate faithfully -/')
    C.append('def untranslatable : List (String × String) := %s'
             % lean_list(['(%s, %s)' % (lean_str(t), lean_str(u)) for t, u in UNTRANS_TAGGED]))
    C.append('')
    C.append('end Generated')
    consts_src = '\n'.join(C) + '\n'

    # --- straight-line integer functions (statement-by-statement rendering) -------------------
    sys.path.insert(0, os.path.dirname(os.path.abspath(__file__)))
    import translate_fn
    n_before = len(UNTRANS_TAGGED)
    import pyais.filter as FLT
    funcs_src, funcs_done = translate_fn.translate_all(U, M, untrans, FLT)
    if len(UNTRANS_TAGGED) != n_before:
        # the list of untranslatable items is part of Consts.lean
        consts_src = consts_src.replace(
            consts_src[consts_src.index('def untranslatable'):],
            'def untranslatable : List (String × String) := %s\n\nend Generated\n'
            % lean_list(['(%s, %s)' % (lean_str(t), lean_str(u)) for t, u in UNTRANS_TAGGED]))

    os.makedirs(OUT, exist_ok=True)
    changed = []
    for fname, src in (('Tables.lean', tables_src), ('Consts.lean', consts_src), ('Funcs.lean', funcs_src)):
        p = os.path.join(OUT, fname)
        old = open(p).read() if os.path.exists(p) else None
        if old != src:
            with open(p + '.tmp', 'w') as f:
                f.write(src)
            os.replace(p + '.tmp', p)
            changed.append(fname)
    print(json.dumps({'changed': changed, 'untranslatable': UNTRANSLATABLE, 'explored': PROBED, 'functions': funcs_done,
                      'classes': len(class_defs), 'conv_tables': {k: len(v) for k, v in CONV_TABLES.items()}}))


if __name__ == '__main__':
    main()
